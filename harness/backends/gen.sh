#!/bin/sh
# regenerates the per-package copies of the shared backend harness templates
cd "$(dirname "$0")/../pkg/backends" || exit 1
for p in influxdb datadog newrelic; do
  sed "s/^package PKG/package $p/" ../../backends/c16http.go.tmpl > $p/zz_verif_c16http.go
done
for p in statsdaemon graphite; do
  sed "s/^package PKG/package $p/" ../../backends/c16sock.go.tmpl > $p/zz_verif_c16sock.go
done
