package lexer

import (
	"math"
	"strconv"

	"github.com/atlassian/gostatsd"
)

// ---------------------------------------------------------------------------------------
// ALL-STRINGS: implications that must hold for every byte string without NUL.

func verifC02All(n int, ns string) {
	buf := nondetBytes(n)
	orig := make([]byte, n)
	for i := 0; i < n; i++ {
		verifAssume(buf[i] != 0)
		orig[i] = buf[i]
	}
	l := verifNewLexer()
	m, e, err := l.Run(buf, ns)

	// where the documented separators are, computed from the untouched copy
	colon := -1
	for i := 0; i < n; i++ {
		if orig[i] == ':' {
			colon = i
			break
		}
	}
	pipe := -1
	if colon >= 0 {
		for i := colon + 1; i < n; i++ {
			if orig[i] == '|' {
				pipe = i
				break
			}
		}
	}
	if colon < 0 {
		verifAssert(err != nil, "line without name separator accepted")
	}
	if colon >= 0 && pipe < 0 && orig[0] != '_' {
		verifAssert(err != nil, "line without value separator accepted")
	}
	if err != nil {
		verifReach("rejected")
		return
	}
	verifAssert((m != nil) != (e != nil), "exactly one of metric/event")
	if m == nil {
		verifReach("event")
		return
	}
	verifReach("metric")
	verifAssert(m.Name != "", "accepted metric with empty name")
	verifAssert(m.Rate == m.Rate && !math.IsInf(m.Rate, 0) && m.Rate > 0, "accepted metric whose sample rate is not finite and positive")
	// type must be one of the documented spellings right after the value separator
	t0 := orig[pipe+1]
	okType := t0 == 'c' || t0 == 'g' || t0 == 'h' || t0 == 's' || (t0 == 'm' && pipe+2 < n && orig[pipe+2] == 's')
	verifAssert(okType, "accepted metric with unknown type")
	valStr := string(orig[colon+1 : pipe])
	if m.Type != gostatsd.SET {
		verifAssert(m.Value == m.Value, "accepted metric with NaN value")
		_, perr := strconv.ParseFloat(valStr, 64)
		verifAssert(perr == nil, "accepted metric whose value does not parse as a number")
	} else {
		verifAssert(m.StringValue == valStr, "set member differs from the value field")
	}
	for _, tag := range m.Tags {
		verifAssert(len(tag) > 0, "empty tag")
		for i := 0; i < len(tag); i++ {
			verifAssert(tag[i] != ',' && tag[i] != '|', "tag contains separator")
		}
	}
}

func VerifC02_All1() { verifC02All(1, "") }
func VerifC02_All2() { verifC02All(2, "") }
func VerifC02_All3() { verifC02All(3, "") }
func VerifC02_All4() { verifC02All(4, "") }
func VerifC02_All5() { verifC02All(5, "") }
func VerifC02_All6() { verifC02All(6, "") }
func VerifC02_All7() { verifC02All(7, "") }
func VerifC02_All8() { verifC02All(8, "") }
func VerifC02_All9() { verifC02All(9, "") }
func VerifC02_AllNs5() { verifC02All(5, "ns") }
func VerifC02_AllNs7() { verifC02All(7, "ns") }

func VerifC02_AllTwin() {
	verifC02All(4, "")
	verifAssert(false, "twin-false")
}

// ---------------------------------------------------------------------------------------
// GRAMMAR: the line is generated from pieces; the expected result is computed from the
// pieces (README rules), never by re-parsing.

func verifNormName(key []byte) string {
	out := make([]byte, 0, len(key))
	for _, b := range key {
		switch {
		case b == '/':
			out = append(out, '-')
		case b == ' ' || b == '\t':
			out = append(out, '_')
		case b == '.' || b == '-' || b == '_' || (b >= 'a' && b <= 'z') || (b >= 'A' && b <= 'Z') || (b >= '0' && b <= '9'):
			out = append(out, b)
		}
	}
	return string(out)
}

var verifTypes = []string{"c", "g", "ms", "h", "s"}
var verifTypeOf = []gostatsd.MetricType{gostatsd.COUNTER, gostatsd.GAUGE, gostatsd.TIMER, gostatsd.TIMER, gostatsd.SET}

// verifC02Grammar: key of kn bytes, value of vn bytes, type index, then nf attribute fields,
// each of kind 0 = "@"+rate(rn bytes), 1 = "#"+tags(tn bytes incl. commas), 2 = unknown letter + un bytes.
func verifC02Grammar(kn, vn, nf, fn int, ns string) {
	key := nondetBytes(kn)
	for i := range key {
		verifAssume(key[i] != 0 && key[i] != ':')
	}
	val := nondetBytes(vn)
	for i := range val {
		verifAssume(val[i] != 0 && val[i] != '|')
	}
	ti := nondetIntIn(0, 4)
	line := append([]byte{}, key...)
	line = append(line, ':')
	line = append(line, val...)
	line = append(line, '|')
	line = append(line, verifTypes[ti]...)

	expRate := float64(1)
	rateOK := true
	var expTags gostatsd.Tags
	for f := 0; f < nf; f++ {
		kind := nondetIntIn(0, 2)
		body := nondetBytes(fn)
		for i := range body {
			verifAssume(body[i] != 0 && body[i] != '|')
		}
		line = append(line, '|')
		switch kind {
		case 0:
			line = append(line, '@')
			line = append(line, body...)
			r, err := strconv.ParseFloat(string(body), 64)
			if err != nil || r != r || math.IsInf(r, 0) || r <= 0 {
				rateOK = false
			}
			expRate = r
		case 1:
			line = append(line, '#')
			line = append(line, body...)
			start := 0
			for i := 0; i <= len(body); i++ {
				if i == len(body) || body[i] == ',' {
					if i > start {
						expTags = append(expTags, string(body[start:i]))
					}
					start = i + 1
				}
			}
		default:
			u := nondetByte()
			verifAssume(u != 0 && u != '|' && u != '@' && u != '#')
			line = append(line, u)
			line = append(line, body...)
		}
	}

	expName := verifNormName(key)
	expType := verifTypeOf[ti]
	valStr := string(val)
	valOK := true
	var expVal float64
	if expType != gostatsd.SET {
		v, err := strconv.ParseFloat(valStr, 64)
		if err != nil || v != v {
			valOK = false
		}
		expVal = v
	}
	shouldAccept := expName != "" && valOK && rateOK

	l := verifNewLexer()
	m, e, err := l.Run(line, ns)
	if !shouldAccept {
		verifReach("expect-reject")
		verifAssert(err != nil, "grammar: line that must be rejected was accepted")
		return
	}
	verifReach("expect-accept")
	if kn > 0 && key[0] == '_' {
		// D11 class: a documented name:value|type line whose name starts with '_'
		verifAssert(err == nil, "grammar: line whose name begins with underscore rejected")
	} else {
		verifAssert(err == nil, "grammar: documented line rejected")
	}
	if err != nil {
		return
	}
	verifAssert(m != nil && e == nil, "grammar: metric line did not yield a metric")
	if ns != "" {
		expName = ns + "." + expName
	}
	verifAssert(m.Name == expName, "grammar: name")
	verifAssert(m.Type == expType, "grammar: type")
	verifAssert(m.Rate == expRate, "grammar: rate")
	if expType == gostatsd.SET {
		verifAssert(m.StringValue == valStr, "grammar: set value")
	} else {
		verifAssert(m.Value == expVal, "grammar: value")
		verifAssert(m.StringValue == "", "grammar: string value not cleared")
	}
	verifAssert(len(m.Tags) == len(expTags), "grammar: number of tags")
	for i := range expTags {
		verifAssert(m.Tags[i] == expTags[i], "grammar: tag")
	}
}

func VerifC02_Gram_1_1_0()   { verifC02Grammar(1, 1, 0, 0, "") }
func VerifC02_Gram_2_1_0()   { verifC02Grammar(2, 1, 0, 0, "") }
func VerifC02_Gram_2_2_0()   { verifC02Grammar(2, 2, 0, 0, "ns") }
func VerifC02_Gram_3_1_0()   { verifC02Grammar(3, 1, 0, 0, "") }
func VerifC02_Gram_1_1_1x1() { verifC02Grammar(1, 1, 1, 1, "") }
func VerifC02_Gram_1_1_1x2() { verifC02Grammar(1, 1, 1, 2, "") }
func VerifC02_Gram_1_1_1x3() { verifC02Grammar(1, 1, 1, 3, "ns") }
func VerifC02_Gram_1_1_2x1() { verifC02Grammar(1, 1, 2, 1, "") }
func VerifC02_Gram_1_1_2x2() { verifC02Grammar(1, 1, 2, 2, "") }
func VerifC02_Gram_2_1_2x2() { verifC02Grammar(2, 1, 2, 2, "") }
func VerifC02_Gram_1_1_3x2() { verifC02Grammar(1, 1, 3, 2, "") }
func VerifC02_Gram_1_1_1x4() { verifC02Grammar(1, 1, 1, 4, "") }

func VerifC02_GramTwin() {
	verifC02Grammar(1, 1, 1, 1, "")
	verifAssert(false, "twin-false")
}

// ---------------------------------------------------------------------------------------
// EVENTS: _e{n,m}:title|text followed by attribute fields.

func verifC02Event(tn, xn, nf, fn int) {
	title := nondetBytes(tn)
	text := nondetBytes(xn)
	for i := range title {
		verifAssume(title[i] != 0)
	}
	for i := range text {
		verifAssume(text[i] != 0)
	}
	line := []byte("_e{" + strconv.Itoa(tn) + "," + strconv.Itoa(xn) + "}:")
	line = append(line, title...)
	line = append(line, '|')
	line = append(line, text...)
	// expected text: escaped newlines restored
	var expText []byte
	for i := 0; i < len(text); i++ {
		if text[i] == '\\' && i+1 < len(text) && text[i+1] == 'n' {
			expText = append(expText, '\n')
			i++
		} else {
			expText = append(expText, text[i])
		}
	}
	exp := gostatsd.Event{Title: string(title), Text: string(expText)}
	for f := 0; f < nf; f++ {
		kind := nondetIntIn(0, 6)
		line = append(line, '|')
		switch kind {
		case 0: // d:
			d1, d2 := nondetByte(), nondetByte()
			verifAssume('0' <= d1 && d1 <= '9' && '0' <= d2 && d2 <= '9')
			line = append(line, 'd', ':', d1, d2)
			exp.DateHappened = int64(d1-'0')*10 + int64(d2-'0')
		case 1: // h:
			body := verifField(fn)
			line = append(line, "h:"...)
			line = append(line, body...)
			exp.Source = gostatsd.Source(body)
		case 2: // k:
			body := verifField(fn)
			line = append(line, "k:"...)
			line = append(line, body...)
			exp.AggregationKey = string(body)
		case 3: // p:
			if nondetBool() {
				line = append(line, "p:low"...)
				exp.Priority = gostatsd.PriLow
			} else {
				line = append(line, "p:normal"...)
			}
		case 4: // s:
			body := verifField(fn)
			line = append(line, "s:"...)
			line = append(line, body...)
			exp.SourceTypeName = string(body)
		case 5: // t:
			switch nondetIntIn(0, 3) {
			case 0:
				line = append(line, "t:info"...)
			case 1:
				line = append(line, "t:error"...)
				exp.AlertType = gostatsd.AlertError
			case 2:
				line = append(line, "t:warning"...)
				exp.AlertType = gostatsd.AlertWarning
			default:
				line = append(line, "t:success"...)
				exp.AlertType = gostatsd.AlertSuccess
			}
		default: // #tags
			body := verifField(fn)
			line = append(line, '#')
			line = append(line, body...)
			start := 0
			for i := 0; i <= len(body); i++ {
				if i == len(body) || body[i] == ',' {
					if i > start {
						exp.Tags = append(exp.Tags, string(body[start:i]))
					}
					start = i + 1
				}
			}
		}
	}
	l := verifNewLexer()
	m, e, err := l.Run(line, "")
	verifAssert(err == nil, "event: documented event line rejected")
	if err != nil {
		return
	}
	verifReach("event-accepted")
	verifAssert(e != nil && m == nil, "event: no event returned")
	verifAssert(e.Title == exp.Title, "event: title")
	verifAssert(e.Text == exp.Text, "event: text")
	verifAssert(e.DateHappened == exp.DateHappened, "event: date")
	verifAssert(e.Source == exp.Source, "event: host")
	verifAssert(e.AggregationKey == exp.AggregationKey, "event: aggregation key")
	verifAssert(e.SourceTypeName == exp.SourceTypeName, "event: source type")
	verifAssert(e.Priority == exp.Priority, "event: priority")
	verifAssert(e.AlertType == exp.AlertType, "event: alert type")
	verifAssert(len(e.Tags) == len(exp.Tags), "event: number of tags")
	for i := range exp.Tags {
		verifAssert(e.Tags[i] == exp.Tags[i], "event: tag")
	}
}

func verifField(n int) []byte {
	b := nondetBytes(n)
	for i := range b {
		verifAssume(b[i] != 0 && b[i] != '|')
	}
	return b
}

func VerifC02_Event_1_1_0()   { verifC02Event(1, 1, 0, 0) }
func VerifC02_Event_2_3_0()   { verifC02Event(2, 3, 0, 0) }
func VerifC02_Event_0_0_1x1() { verifC02Event(0, 0, 1, 1) }
func VerifC02_Event_1_2_1x2() { verifC02Event(1, 2, 1, 2) }
func VerifC02_Event_1_1_2x1() { verifC02Event(1, 1, 2, 1) }
func VerifC02_Event_1_2_2x2() { verifC02Event(1, 2, 2, 2) }
func VerifC02_Event_2_4_1x3() { verifC02Event(2, 4, 1, 3) }
func VerifC02_Event_1_1_3x1() { verifC02Event(1, 1, 3, 1) }
