package lexer

import (
	"github.com/atlassian/gostatsd"
	"github.com/atlassian/gostatsd/internal/pool"
)

func verifNewLexer() *Lexer {
	return &Lexer{MetricPool: pool.NewMetricPool(0)}
}

// VerifC03_AllN: every byte string of exactly N bytes (including NUL) through Lexer.Run.
// Obligation: no panic.
func verifC03All(n int) {
	buf := nondetBytes(n)
	l := verifNewLexer()
	m, e, err := l.Run(buf, "")
	if err != nil {
		verifReach("rejected")
		verifAssert(m == nil && e == nil, "error with non-nil result")
		return
	}
	verifAssert((m != nil) != (e != nil), "exactly one of metric/event")
	if m != nil {
		verifReach("metric")
	} else {
		verifReach("event")
	}
}

func VerifC03_All1() { verifC03All(1) }
func VerifC03_All2() { verifC03All(2) }
func VerifC03_All3() { verifC03All(3) }
func VerifC03_All4() { verifC03All(4) }
func VerifC03_All5() { verifC03All(5) }
func VerifC03_All6() { verifC03All(6) }
func VerifC03_All7() { verifC03All(7) }
func VerifC03_All8() { verifC03All(8) }

// VerifC03_EventBody: unit-level pre-state harness for the event body: arbitrary declared
// lengths (all uint32), arbitrary cursor, arbitrary bytes.
func verifC03EventBody(n int) {
	buf := nondetBytes(n)
	l := &Lexer{input: buf, len: uint32(n), e: new(gostatsd.Event)}
	l.pos = nondetUint32()
	verifAssume(l.pos <= l.len)
	l.eventTitleLen = nondetUint32()
	l.eventTextLen = nondetUint32()
	for st := stateFn(lexEventBody); st != nil; {
		st = st(l)
	}
	verifReach("done")
}

func VerifC03_EventBody4()  { verifC03EventBody(4) }
func VerifC03_EventBody8()  { verifC03EventBody(8) }
func VerifC03_EventBody12() { verifC03EventBody(12) }

// Twin: same body as All3 followed by assert(false); must be reported violated (vacuity guard).
func VerifC03_Twin() {
	verifC03All(3)
	verifAssert(false, "twin-false")
}
