package util

import (
	"context"
	"time"

	"github.com/tilinna/clock"
)

// C18: aligned flushing happens exactly on interval boundaries (math mode).
//
// Boundaries are the instants t with (t - offset) an exact multiple of the interval counted
// from Go's zero time (time.Truncate's contract); the oracle below is written with mod on the
// nanosecond count, not with Truncate.

const verifZ = int64(62135596800) // seconds from Go's zero time to the Unix epoch

type verifClock struct {
	now     time.Time
	timerD  time.Duration
	timerCh chan time.Time
	tickD   time.Duration
	tickCh  chan time.Time
}

func (c *verifClock) Now() time.Time { return c.now }
func (c *verifClock) NewTimer(d time.Duration) *clock.Timer {
	c.timerD = d
	return &clock.Timer{C: c.timerCh}
}
func (c *verifClock) NewTicker(d time.Duration) *clock.Ticker {
	c.tickD = d
	return &clock.Ticker{C: c.tickCh}
}
func (c *verifClock) After(d time.Duration) <-chan time.Time           { panic("unused") }
func (c *verifClock) AfterFunc(d time.Duration, f func()) *clock.Timer { panic("unused") }
func (c *verifClock) Since(t time.Time) time.Duration                  { return c.now.Sub(t) }
func (c *verifClock) Sleep(d time.Duration)                            {}
func (c *verifClock) Tick(d time.Duration) <-chan time.Time            { panic("unused") }
func (c *verifClock) Until(t time.Time) time.Duration                  { return t.Sub(c.now) }
func (c *verifClock) DeadlineContext(p context.Context, d time.Time) (context.Context, context.CancelFunc) {
	panic("unused")
}
func (c *verifClock) TimeoutContext(p context.Context, d time.Duration) (context.Context, context.CancelFunc) {
	panic("unused")
}

// onBoundary: (t - offset) is a multiple of interval counted from Go's zero time.
func verifOnBoundary(tNanos, offset, interval int64) bool {
	// (t + Z*1e9 - offset) mod interval == 0 ; all quantities non-negative in the stated ranges
	x := tNanos - offset
	// Z*1e9 mod interval without overflowing int64 (interval <= 24h = 8.64e13): 1e9 = 31250 * 32000
	zs := verifZ % interval
	zn := ((zs * 31250) % interval * 32000) % interval
	return ((x%interval)+zn)%interval == 0
}

const (
	verifY2000 = int64(946684800) * 1000000000
	verifY2100 = int64(4102444800) * 1000000000
)

// verifC18 drives the real AlignedTicker: start instant, interval and offset symbolic; the first
// timer fires with symbolic lateness; then `ticks` ticker values under the stated contract.
func verifC18(ticks int, runtimeContract bool, fixedInterval int64) {
	start := nondetInt64In(verifY2000, verifY2100)
	interval := fixedInterval
	if interval == 0 {
		interval = nondetInt64In(int64(time.Millisecond), int64(24*time.Hour))
	}
	offset := nondetInt64In(0, 3*int64(24*time.Hour))
	verifAssume(offset < 3*interval)
	clk := &verifClock{now: time.Unix(0, start), timerCh: make(chan time.Time, 1), tickCh: make(chan time.Time, 1)}
	ctx := clock.Context(context.Background(), clk)
	at := NewAlignedTickerWithContext(ctx, time.Duration(interval), time.Duration(offset))

	// (a) initial wait
	d := int64(clk.timerD)
	verifAssert(d > 0 && d <= interval, "initial wait is in (0, interval]: the first flush is no later than one interval after start-up")
	verifAssert(verifOnBoundary(start+d, offset, interval), "initial wait ends on a boundary")
	verifReach("initial")

	// the timer fires at or after its due time
	late := nondetInt64In(0, int64(48*time.Hour))
	t1 := start + d + late
	clk.timerCh <- time.Unix(0, t1)
	v1 := (<-at.C).UnixNano()
	verifAssert(int64(clk.tickD) == interval, "the repeating ticker has the configured interval")
	verifAssert(verifOnBoundary(v1, offset, interval), "first flush time is on a boundary")
	verifAssert(v1 <= t1 && t1-v1 < interval, "first flush time is the last boundary not after the tick")

	prevV, prevT := v1, t1
	for k := 0; k < ticks; k++ {
		var tk int64
		if runtimeContract {
			// Go runtime ticker: fires at or after when_k, arbitrarily late, never before the previous tick
			tk = nondetInt64In(verifY2000, verifY2100+int64(400*time.Hour))
			verifAssume(tk >= prevT)
		} else {
			// E-mock: tick k carries exactly the previous tick plus a positive multiple of the interval
			// (clock jumps over several intervals drop ticks but keep the grid)
			n := nondetInt64In(1, 5)
			tk = prevT + n*interval
		}
		clk.tickCh <- time.Unix(0, tk)
		vk := (<-at.C).UnixNano()
		verifAssert(verifOnBoundary(vk, offset, interval), "flush time is on a boundary")
		verifAssert(vk <= tk && tk-vk < interval, "flush time is the last boundary not after the tick")
		if !runtimeContract {
			verifAssert(vk > prevV, "flush times strictly increase")
			delta := vk - prevV
			verifAssert(delta > 0 && delta%interval == 0, "elapsed time between flushes is a positive multiple of the interval")
		}
		prevV, prevT = vk, tk
		verifReach("tick")
	}
}

func VerifC18_1ms_2()    { verifC18(2, false, int64(time.Millisecond)) }
func VerifC18_7s_2()     { verifC18(2, false, int64(7*time.Second)) }
func VerifC18_5m_2()     { verifC18(2, false, int64(5*time.Minute)) }
func VerifC18_1h_2()     { verifC18(2, false, int64(time.Hour)) }
func VerifC18_24h_2()    { verifC18(2, false, int64(24*time.Hour)) }
func VerifC18_Sym1()     { verifC18(1, false, 0) }
func VerifC18_Sym2()     { verifC18(2, false, 0) }
func VerifC18_1s_2()     { verifC18(2, false, int64(time.Second)) }
func VerifC18_10s_3()    { verifC18(3, false, int64(10*time.Second)) }
func VerifC18_60s_3()    { verifC18(3, false, int64(time.Minute)) }
func VerifC18_250ms_2()  { verifC18(2, false, int64(250*time.Millisecond)) }

// verifC18Runtime: the Go runtime's ticker contract. The ticker is created when the first timer
// value is processed (at t1); tick k is due at when_k and carries the instant it actually fired,
// now_k = when_k + late_k with arbitrary lateness; the runtime then re-arms it at
// when_{k+1} = when_k + interval*(1 + late_k div interval). Flush times must strictly increase
// and the elapsed time between flushes must be a positive multiple of the interval.
func verifC18Runtime(ticks int, interval int64) {
	start := nondetInt64In(verifY2000, verifY2100)
	offset := nondetInt64In(0, interval-1)
	clk := &verifClock{now: time.Unix(0, start), timerCh: make(chan time.Time, 1), tickCh: make(chan time.Time, 1)}
	ctx := clock.Context(context.Background(), clk)
	at := NewAlignedTickerWithContext(ctx, time.Duration(interval), time.Duration(offset))
	d := int64(clk.timerD)
	late0 := nondetInt64In(0, 3*interval)
	t1 := start + d + late0
	clk.timerCh <- time.Unix(0, t1)
	prevV := (<-at.C).UnixNano()
	when := t1 + interval // the ticker is created right after the timer value is received
	for k := 0; k < ticks; k++ {
		late := nondetInt64In(0, 3*interval)
		now := when + late
		clk.tickCh <- time.Unix(0, now)
		verifYield() // let the ticker goroutine process the tick
		when = when + interval*(1+late/interval)
		select {
		case v := <-at.C:
			vk := v.UnixNano()
			verifAssert(verifOnBoundary(vk, offset, interval), "flush time is on a boundary (runtime ticker)")
			verifAssert(vk > prevV, "flush times strictly increase (runtime ticker with late ticks)")
			verifAssert((vk-prevV)%interval == 0, "elapsed time is a multiple of the interval (runtime ticker)")
			verifAssert(vk <= now && now-vk < interval, "flush time is the last boundary not after the tick (runtime ticker)")
			prevV = vk
			verifReach("runtime-tick")
		default:
			// no flush for this tick: only allowed when it would repeat the previous boundary
			verifAssert(now-prevV < interval, "a tick on a new boundary was swallowed")
			verifReach("runtime-tick-suppressed")
		}
	}
}

func VerifC18_RuntimeLate_10s_1() { verifC18Runtime(1, int64(10*time.Second)) }
func VerifC18_RuntimeLate_10s_2() { verifC18Runtime(2, int64(10*time.Second)) }
func VerifC18_RuntimeLate_1s_3()  { verifC18Runtime(3, int64(time.Second)) }

func VerifC18_Twin() {
	verifC18(1, false, int64(time.Second))
	verifAssert(false, "twin-false")
}

// larger bounds for the thorough tier
func VerifC18_10s_5()            { verifC18(5, false, int64(10*time.Second)) }
func VerifC18_RuntimeLate_10s_4() { verifC18Runtime(4, int64(10*time.Second)) }
func VerifC18_RuntimeLate_7s_3()  { verifC18Runtime(3, int64(7*time.Second)) }
