//verif:dir pkg/backends/statsdaemon
package statsdaemon

import (
	"bytes"

	"github.com/atlassian/gostatsd"
)

// VerifConstructEventMessage exposes the relay's event rendering to the harness of pkg/statsd.
func VerifConstructEventMessage(e *gostatsd.Event) *bytes.Buffer { return constructEventMessage(e) }
