//verif:dir internal/awslambda/extension
package extension

import (
	"net/http"

	"github.com/sirupsen/logrus"

	"github.com/atlassian/gostatsd/internal/flush"
)

// VerifNewManager builds the real manager around a harness runtime-API client, a flush
// coordinator and a server; the telemetry HTTP server is not started (the harness delivers
// telemetry batches to the real handler directly).
func VerifNewManager(client *http.Client, fc flush.Coordinator, server Server) Server {
	return &manager{log: logrus.StandardLogger(), client: client, domain: "runtime", name: "gostatsd", server: server, fc: fc}
}
