//verif:dir internal/awslambda/extension/telemetry
package telemetry

import (
	"net/http"

	"github.com/sirupsen/logrus"
)

// VerifNewServer: the telemetry server without its HTTP listener / router.
func VerifNewServer(hook RuntimeDoneHook) *Server {
	return &Server{log: logrus.StandardLogger(), f: hook}
}

// VerifEventHandler runs the real POST /telemetry handler.
func (s *Server) VerifEventHandler(w http.ResponseWriter, r *http.Request) { s.eventHandler(w, r) }
