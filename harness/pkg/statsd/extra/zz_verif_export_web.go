//verif:dir pkg/web
package web

import (
	"net/http"

	"github.com/sirupsen/logrus"

	"github.com/atlassian/gostatsd"
)

// VerifRawHandler exposes the real /v2/raw and /v2/event handlers to the harness of pkg/statsd.
type VerifRawHandler struct{ h *rawHttpHandlerV2 }

func VerifNewRawHandler(handler gostatsd.PipelineHandler) *VerifRawHandler {
	return &VerifRawHandler{h: newRawHttpHandlerV2(logrus.StandardLogger(), "verif", handler)}
}

func (v *VerifRawHandler) MetricHandler(w http.ResponseWriter, req *http.Request) { v.h.MetricHandler(w, req) }
func (v *VerifRawHandler) EventHandler(w http.ResponseWriter, req *http.Request)  { v.h.EventHandler(w, req) }
