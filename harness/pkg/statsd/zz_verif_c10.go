package statsd

import (
	"context"
	"strings"

	"github.com/atlassian/gostatsd"
)

// C10: static tags, tag de-duplication and filters follow FILTERING.md.
// The specification below is written with sets and no in-place tricks.

type verifPattern struct {
	invert, prefix, regex bool
	body                  string
	sm                    gostatsd.StringMatch
}

func verifMkPattern(allowRegex bool) verifPattern {
	p := verifPattern{invert: nondetBool(), body: nondetString(1)}
	verifAssume(p.body[0] != '!' && p.body[0] != '*')
	kind := nondetIntIn(0, 2)
	if !allowRegex {
		verifAssume(kind < 2)
	}
	s := p.body
	switch kind {
	case 1:
		p.prefix = true
		s = s + "*"
	case 2:
		p.regex = true
		s = "regex:" + s
	}
	if p.invert {
		s = "!" + s
	}
	p.sm = gostatsd.NewStringMatch(s)
	return p
}

// specMatch: exact match, prefix match with a trailing '*', negation with a leading '!',
// regular expression after 'regex:' (the regexp library's verdict is taken as given).
func (p verifPattern) specMatch(s string) bool {
	var m bool
	switch {
	case p.regex:
		m = p.sm.Match(s) != p.invert // the library's verdict, un-inverted
	case p.prefix:
		m = strings.HasPrefix(s, p.body)
	default:
		m = s == p.body
	}
	return m != p.invert
}

type verifFilterSpec struct {
	matchMetrics, excludeMetrics, matchTags, dropTags []verifPattern
	dropMetric, dropHost                              bool
}

func verifMkList(max int, allowRegex bool) []verifPattern {
	n := nondetIntIn(0, max)
	var out []verifPattern
	for i := 0; i < max; i++ {
		if i < n {
			out = append(out, verifMkPattern(allowRegex))
		}
	}
	return out
}

func verifToList(ps []verifPattern) gostatsd.StringMatchList {
	var l gostatsd.StringMatchList
	for _, p := range ps {
		l = append(l, p.sm)
	}
	return l
}

func verifAny(ps []verifPattern, s string) bool {
	for _, p := range ps {
		if p.specMatch(s) {
			return true
		}
	}
	return false
}

func (f verifFilterSpec) satisfied(name string, tags []string) bool {
	if len(f.matchMetrics) > 0 && !verifAny(f.matchMetrics, name) {
		return false
	}
	if verifAny(f.excludeMetrics, name) {
		return false
	}
	if len(f.matchTags) > 0 {
		any := false
		for _, t := range tags {
			if verifAny(f.matchTags, t) {
				any = true
			}
		}
		if !any {
			return false
		}
	}
	return true
}

func verifContains(l []string, s string) bool {
	for _, x := range l {
		if x == s {
			return true
		}
	}
	return false
}

// verifExpect computes the specified outcome for one metric.
func verifExpect(filters []verifFilterSpec, static []string, name string, tags []string) (dropped bool, clearHost bool, expTags []string) {
	var removed []string
	for _, f := range filters {
		if !f.satisfied(name, tags) {
			continue
		}
		if f.dropMetric {
			dropped = true
		}
		if f.dropHost {
			clearHost = true
		}
		for _, t := range tags {
			if verifAny(f.dropTags, t) && !verifContains(removed, t) {
				removed = append(removed, t)
			}
		}
	}
	for _, t := range tags {
		if !verifContains(removed, t) && !verifContains(expTags, t) {
			expTags = append(expTags, t)
		}
	}
	for _, t := range static {
		if !verifContains(removed, t) && !verifContains(expTags, t) {
			expTags = append(expTags, t)
		}
	}
	return
}

func verifSameSet(got gostatsd.Tags, exp []string) bool {
	if len(got) != len(exp) {
		return false
	}
	for _, e := range exp {
		if !verifContains(got, e) {
			return false
		}
	}
	return true
}

func verifC10One(nFilters, maxPat, nTags, nStatic int, allowRegex bool) {
	var specs []verifFilterSpec
	var filters []Filter
	for i := 0; i < nFilters; i++ {
		var fs verifFilterSpec
		if maxPat < 0 {
			// exactly one pattern, in one (symbolic) of the four lists
			pat := []verifPattern{verifMkPattern(false)}
			switch nondetIntIn(0, 3) {
			case 0:
				fs.matchMetrics = pat
			case 1:
				fs.excludeMetrics = pat
			case 2:
				fs.matchTags = pat
			default:
				fs.dropTags = pat
			}
			fs.dropMetric, fs.dropHost = nondetBool(), nondetBool()
		} else {
			fs = verifFilterSpec{
				matchMetrics:   verifMkList(maxPat, allowRegex),
				excludeMetrics: verifMkList(maxPat, false),
				matchTags:      verifMkList(maxPat, false),
				dropTags:       verifMkList(maxPat, allowRegex),
				dropMetric:     nondetBool(),
				dropHost:       nondetBool(),
			}
		}
		specs = append(specs, fs)
		filters = append(filters, Filter{MatchMetrics: verifToList(fs.matchMetrics), ExcludeMetrics: verifToList(fs.excludeMetrics),
			MatchTags: verifToList(fs.matchTags), DropTags: verifToList(fs.dropTags), DropMetric: fs.dropMetric, DropHost: fs.dropHost})
	}
	var static []string
	ns := nondetIntIn(0, nStatic) // 0..nStatic static tags
	for i := 0; i < nStatic; i++ {
		if i < ns {
			static = append(static, nondetString(1))
		}
	}
	// the static list is de-duplicated by the constructor: hand it a copy
	rec := &verifRecorder{}
	th := NewTagHandler(rec, append(gostatsd.Tags{}, static...), filters)

	name := nondetString(1)
	var tags []string
	for i := 0; i < nTags; i++ {
		tags = append(tags, nondetString(1))
	}
	dropped, clearHost, expTags := verifExpect(specs, static, name, tags)

	mm := gostatsd.NewMetricMap(false)
	orig := gostatsd.Counter{Value: 7, Source: "h", Timestamp: 3, Tags: append(gostatsd.Tags{}, tags...)}
	mm.Counters[name] = map[string]gostatsd.Counter{"k": orig}
	th.DispatchMetricMap(context.Background(), mm)

	if dropped {
		verifReach("dropped")
		verifAssert(len(rec.maps) == 0, "a metric satisfying a drop-metric filter is dropped")
		return
	}
	verifAssert(len(rec.maps) == 1, "a metric not matched by a drop-metric filter is forwarded")
	if len(rec.maps) != 1 {
		return
	}
	out := rec.maps[0]
	verifAssert(len(out.Counters) == 1 && len(out.Counters[name]) == 1, "exactly the one series is forwarded")
	for _, c := range out.Counters[name] {
		verifReach("forwarded")
		verifAssert(c.Value == 7 && c.Timestamp == 3, "payload unchanged by the tag stage")
		if clearHost {
			verifReach("host-cleared")
			verifAssert(c.Source == "", "source cleared when a satisfied filter has drop-host")
		} else {
			verifAssert(c.Source == "h", "source kept when no satisfied filter has drop-host")
		}
		for i := range c.Tags {
			for j := 0; j < i; j++ {
				verifAssert(c.Tags[i] != c.Tags[j], "duplicate tag leaves the tag stage")
			}
		}
		verifAssert(verifSameSet(c.Tags, expTags), "tags are (metric tags minus tags matched by drop-tags of satisfied filters) plus the static tags not removed from this metric")
	}
}

func VerifC10_NoFilter_2_1()  { verifC10One(0, 0, 2, 1, false) }
func VerifC10_NoFilter_3_2()  { verifC10One(0, 0, 3, 2, false) }
func VerifC10_Filter1_1_1()   { verifC10One(1, 1, 1, 1, false) }
func VerifC10_Filter1_2_1()   { verifC10One(1, 1, 2, 1, false) }
func VerifC10_Filter1Re_1_1() { verifC10One(1, 1, 1, 1, true) }
func VerifC10_Filter2_1_0()   { verifC10One(2, -1, 1, 0, false) }
func VerifC10_Filter2_2_1()   { verifC10One(2, -1, 2, 1, false) }
func VerifC10_Filter3_1_0()   { verifC10One(3, -1, 1, 0, false) }
func VerifC10_Filter1P2_2_1() { verifC10One(1, 2, 2, 1, false) }

func VerifC10_Twin() {
	verifC10One(1, 1, 1, 1, false)
	verifAssert(false, "twin-false")
}

// Collision: two series of one name whose tag sets may coincide after removal are combined
// without loss.
func verifC10Collide(typ int) {
	drop := verifMkPattern(false)
	filters := []Filter{{DropTags: gostatsd.StringMatchList{drop.sm}}}
	rec := &verifRecorder{}
	// 0..1 static tags: a series may lose as many tags as it gains
	var static gostatsd.Tags
	if nondetBool() {
		static = gostatsd.Tags{nondetString(1)}
	}
	th := NewTagHandler(rec, static, filters)
	t1, t2 := nondetString(1), nondetString(1)
	v1, v2 := int64(nondetInt32()), int64(nondetInt32())
	ts1, ts2 := gostatsd.Nanotime(nondetInt64In(0, 1<<40)), gostatsd.Nanotime(nondetInt64In(0, 1<<40))
	mm := gostatsd.NewMetricMap(false)
	switch typ {
	case 0:
		mm.Counters["n"] = map[string]gostatsd.Counter{"k1": {Value: v1, Timestamp: ts1, Tags: gostatsd.Tags{t1}}, "k2": {Value: v2, Timestamp: ts2, Tags: gostatsd.Tags{t2}}}
	case 2:
		mm.Timers["n"] = map[string]gostatsd.Timer{"k1": {Values: []float64{float64(v1)}, SampledCount: 1, Timestamp: ts1, Tags: gostatsd.Tags{t1}},
			"k2": {Values: []float64{float64(v2)}, SampledCount: 2, Timestamp: ts2, Tags: gostatsd.Tags{t2}}}
	default:
		mm.Sets["n"] = map[string]gostatsd.Set{"k1": {Values: map[string]struct{}{"a": {}}, Timestamp: ts1, Tags: gostatsd.Tags{t1}},
			"k2": {Values: map[string]struct{}{"b": {}}, Timestamp: ts2, Tags: gostatsd.Tags{t2}}}
	}
	th.DispatchMetricMap(context.Background(), mm)
	verifAssert(len(rec.maps) == 1, "forwarded")
	out := rec.maps[0]
	// series that coincide after the stage (same source, same tag set) must have been combined into one
	var ids []gostatsd.Tags
	for _, c := range out.Counters["n"] {
		ids = append(ids, c.Tags)
	}
	for _, c := range out.Timers["n"] {
		ids = append(ids, c.Tags)
	}
	for _, c := range out.Sets["n"] {
		ids = append(ids, c.Tags)
	}
	if len(ids) == 2 {
		verifAssert(!verifSameSet(ids[0], ids[1]), "two series of one name leave the tag stage with the same source and tag set: coinciding series must be combined")
	}
	switch typ {
	case 0:
		var sum int64
		n := 0
		var maxTs gostatsd.Nanotime
		for _, c := range out.Counters["n"] {
			sum += c.Value
			n++
			if c.Timestamp > maxTs {
				maxTs = c.Timestamp
			}
		}
		verifAssert(sum == v1+v2, "colliding counters are combined without loss")
		if n == 1 {
			verifReach("collided")
			want := ts1
			if ts2 > ts1 {
				want = ts2
			}
			verifAssert(maxTs == want, "combined series keeps the newest timestamp")
		} else {
			verifReach("distinct")
		}
	case 2:
		nv := 0
		sc := float64(0)
		for _, t := range out.Timers["n"] {
			nv += len(t.Values)
			sc += t.SampledCount
		}
		verifAssert(nv == 2 && sc == 3, "colliding timers keep all values and sampled counts")
	default:
		members := 0
		series := 0
		for _, s := range out.Sets["n"] {
			members += len(s.Values)
			series++
		}
		verifAssert(members == 2, "colliding sets are united without loss")
		if series == 1 {
			verifReach("collided")
		}
	}
}

func VerifC10_CollideCounter() { verifC10Collide(0) }
func VerifC10_CollideTimer()   { verifC10Collide(2) }
func VerifC10_CollideSet()     { verifC10Collide(3) }

// a metric that arrives without any tag
func VerifC10_Filter1_0_1() { verifC10One(1, 1, 0, 1, false) }
func VerifC10_Filter1_0_0() { verifC10One(1, 1, 0, 0, false) }
func VerifC10_Filter2_0_0() { verifC10One(2, -1, 0, 0, false) }
