package statsd

import (
	"context"

	"github.com/atlassian/gostatsd"
	"github.com/atlassian/gostatsd/pkg/stats"
)

// C11: the cloud stage forwards every item exactly once, correctly tagged; at most one lookup
// per source is outstanding; the queue gauges equal the true numbers.
//
// History harness: k symbolic commands from the real initial state over two sources, executed
// by the real handler functions in the order the Run loop would execute them (single owner).

type verifCache struct {
	// scripted Peek: result for the next call is symbolic
	hitInstance *gostatsd.Instance
}

func (c *verifCache) Peek(ip gostatsd.Source) (*gostatsd.Instance, bool) {
	switch nondetIntIn(0, 2) {
	case 0:
		return nil, false // miss
	case 1:
		return nil, true // negative hit
	default:
		return c.hitInstance, true
	}
}
func (c *verifCache) IpSink() chan<- gostatsd.Source          { return nil }
func (c *verifCache) InfoSource() <-chan gostatsd.InstanceInfo { return nil }
func (c *verifCache) EstimatedTags() int                       { return 0 }

type verifGaugeRec struct {
	stats.Statser
	vals map[string]float64
}

func (g *verifGaugeRec) Gauge(name string, value float64, tags gostatsd.Tags) {
	key := name
	if len(tags) > 0 {
		key += "|" + tags[0]
	}
	g.vals[key] = value
}

var verifSources = []gostatsd.Source{"1.1.1.1", "2.2.2.2"}

func verifCounterTotal(maps []*gostatsd.MetricMap, src gostatsd.Source) (total int64, n int) {
	for _, mm := range maps {
		for _, byTags := range mm.Counters {
			for _, c := range byTags {
				if c.Source == src {
					total += c.Value
					n++
				}
			}
		}
	}
	return
}

type verifC11 struct {
	rec   *verifRecorder
	inst  *gostatsd.Instance
	ch    *CloudHandler
	ctx   context.Context
	// ghost state
	parkedTotal  [2]int64 // counter datapoints parked per source
	parkedMetric [2]bool
	parkedEvents [2]int
	outstanding  [2]bool // lookup handed to the cache and not yet answered
}

func verifC11New() *verifC11 {
	st := &verifC11{rec: &verifRecorder{}, ctx: context.Background()}
	st.inst = &gostatsd.Instance{ID: "i-123", Tags: gostatsd.Tags{"region:x"}}
	st.ch = NewCloudHandler(&verifCache{hitInstance: st.inst}, st.rec)
	// buffered so that the dispatch side can hand over to the owner loop in one thread
	st.ch.incomingMetrics = make(chan *gostatsd.MetricMap, 4)
	st.ch.incomingEvents = make(chan *gostatsd.Event, 4)
	return st
}

func verifSrcIndex(s gostatsd.Source) int {
	if s == verifSources[0] {
		return 0
	}
	return 1
}

// arbitrary puts the handler into an arbitrary state satisfying the representation invariant.
func (st *verifC11) arbitrary() {
	ch := st.ch
	var queued []gostatsd.Source
	for i := 0; i < 2; i++ {
		src := verifSources[i]
		if nondetBool() {
			v := int64(nondetInt32())
			mm := gostatsd.NewMetricMap(false)
			mm.Counters["c"] = map[string]gostatsd.Counter{"": {Value: v, Source: src, Timestamp: 1}}
			ch.awaitingMetrics[src] = mm
			st.parkedMetric[i], st.parkedTotal[i] = true, v
			ch.statsMetricHostsQueued++
		}
		ne := nondetIntIn(0, 2)
		for k := 0; k < 2; k++ {
			if k < ne {
				ch.awaitingEvents[src] = append(ch.awaitingEvents[src], &gostatsd.Event{Title: "p", Source: src})
				ch.wg.Add(1)
				st.parkedEvents[i]++
			}
		}
		if st.parkedEvents[i] > 0 {
			ch.statsEventHostsQueued++
			ch.statsEventItemsQueued += uint64(st.parkedEvents[i])
		}
		if st.parkedMetric[i] || st.parkedEvents[i] > 0 {
			if nondetBool() {
				st.outstanding[i] = true
			} else {
				queued = append(queued, src)
			}
		}
	}
	if len(queued) == 2 && nondetBool() {
		queued[0], queued[1] = queued[1], queued[0]
	}
	ch.toLookupIPs = queued
}

func (st *verifC11) step() {
	ch, rec, ctx, inst := st.ch, st.rec, st.ctx, st.inst
	cmd := nondetIntIn(0, 4)
	si := nondetIntIn(0, 1)
	src := verifSources[si]
	switch cmd {
	case 0: // a metric batch from source src
		v := int64(nondetInt32())
		mm := gostatsd.NewMetricMap(false)
		mm.Counters["c"] = map[string]gostatsd.Counter{"": {Value: v, Source: src, Timestamp: 1}}
		before := len(rec.maps)
		ch.DispatchMetricMap(ctx, mm)
		if len(rec.maps) > before {
			verifReach("metric-hit")
			tot, n := verifCounterTotal(rec.maps[before:], src)
			tot2, n2 := verifCounterTotal(rec.maps[before:], inst.ID)
			verifAssert(n+n2 == 1 && tot+tot2 == v, "a datapoint with a known source leaves at once, exactly once")
			verifAssert(len(ch.incomingMetrics) == 0, "a datapoint both forwarded and parked")
		} else {
			verifAssert(len(ch.incomingMetrics) == 1, "a datapoint neither forwarded nor parked")
			ch.handleIncomingMetrics(<-ch.incomingMetrics)
			st.parkedTotal[si] += v
			st.parkedMetric[si] = true
			verifReach("metric-parked")
		}
	case 1: // an event from source src
		e := &gostatsd.Event{Title: "t", Source: src}
		before := len(rec.events)
		ch.DispatchEvent(ctx, e)
		if len(rec.events) > before {
			verifReach("event-hit")
			verifAssert(len(rec.events) == before+1, "an event with a known source leaves exactly once")
			verifAssert(len(ch.incomingEvents) == 0, "an event both forwarded and parked")
		} else {
			verifAssert(len(ch.incomingEvents) == 1, "an event neither forwarded nor parked")
			ch.handleIncomingEvent(<-ch.incomingEvents)
			st.parkedEvents[si]++
			verifReach("event-parked")
		}
	case 2: // the owner loop hands the next pending source to the cache
		if len(ch.toLookupIPs) > 0 {
			last := len(ch.toLookupIPs) - 1
			ip := ch.toLookupIPs[last]
			ch.toLookupIPs = ch.toLookupIPs[:last]
			verifAssert(!st.outstanding[verifSrcIndex(ip)], "second lookup for a source while one is outstanding")
			st.outstanding[verifSrcIndex(ip)] = true
			verifReach("lookup-sent")
		}
	case 3: // a lookup completes (only for an outstanding one), with an instance or nothing
		if st.outstanding[si] {
			var in *gostatsd.Instance
			if nondetBool() {
				in = inst
			}
			mapsBefore, eventsBefore := len(rec.maps), len(rec.events)
			ch.handleInstanceInfo(ctx, gostatsd.InstanceInfo{IP: src, Instance: in})
			verifYield() // the release runs on spawned goroutines
			st.outstanding[si] = false
			expSrc := src
			if in != nil {
				expSrc = in.ID
			}
			tot, _ := verifCounterTotal(rec.maps[mapsBefore:], expSrc)
			verifAssert(tot == st.parkedTotal[si], "datapoints parked for the source do not all leave exactly once when its lookup completes")
			if st.parkedMetric[si] {
				verifAssert(len(rec.maps) == mapsBefore+1, "parked metrics leave in one batch")
				for _, byTags := range rec.maps[mapsBefore].Counters {
					for _, c := range byTags {
						if in != nil {
							verifAssert(c.Source == in.ID && len(c.Tags) == 1 && c.Tags[0] == "region:x", "instance tags and id applied after a successful lookup")
						} else {
							verifAssert(c.Source == src && len(c.Tags) == 0, "datapoints unchanged after a failed lookup")
						}
					}
				}
				verifReach("metrics-released")
			} else {
				verifAssert(len(rec.maps) == mapsBefore, "nothing to release")
			}
			verifAssert(len(rec.events)-eventsBefore == st.parkedEvents[si], "events parked for the source do not all leave exactly once when its lookup completes")
			for _, e := range rec.events[eventsBefore:] {
				if in != nil {
					verifAssert(e.Source == in.ID && len(e.Tags) == 1, "event tagged after a successful lookup")
				} else {
					verifAssert(e.Source == src && len(e.Tags) == 0, "event unchanged after a failed lookup")
				}
			}
			if st.parkedEvents[si] > 0 {
				verifReach("events-released")
			}
			st.parkedTotal[si], st.parkedMetric[si], st.parkedEvents[si] = 0, false, 0
		}
	default: // stats emission
		g := &verifGaugeRec{vals: map[string]float64{}}
		ch.emit(g)
		trueMetricHosts, trueEventHosts, trueEventItems := 0, 0, 0
		for i := 0; i < 2; i++ {
			if st.parkedMetric[i] {
				trueMetricHosts++
			}
			if st.parkedEvents[i] > 0 {
				trueEventHosts++
			}
			trueEventItems += st.parkedEvents[i]
		}
		verifAssert(g.vals["cloudprovider.hosts_queued|type:metric"] == float64(trueMetricHosts), "reported number of hosts waiting with metrics differs from the true number")
		verifAssert(g.vals["cloudprovider.hosts_queued|type:event"] == float64(trueEventHosts), "reported number of hosts waiting with events differs from the true number")
		verifAssert(g.vals["cloudprovider.items_queued|type:event"] == float64(trueEventItems), "reported number of events waiting differs from the true number")
		verifReach("emit")
	}
	st.invariant()
}

// invariant: the representation invariant (also the induction hypothesis of the step harness).
func (st *verifC11) invariant() {
	ch := st.ch
	mh, eh, ei := 0, 0, 0
	for i := 0; i < 2; i++ {
		s := verifSources[i]
		inQueue := 0
		for _, ip := range ch.toLookupIPs {
			if ip == s {
				inQueue++
			}
		}
		parked := st.parkedMetric[i] || st.parkedEvents[i] > 0
		pending := inQueue
		if st.outstanding[i] {
			pending++
		}
		if parked {
			verifAssert(pending == 1, "a source with parked data has exactly one lookup pending or outstanding")
		} else {
			verifAssert(inQueue == 0, "a lookup is queued for a source with nothing parked")
		}
		_, hasM := ch.awaitingMetrics[s]
		verifAssert(hasM == st.parkedMetric[i], "awaitingMetrics agrees with the ghost state")
		verifAssert(len(ch.awaitingEvents[s]) == st.parkedEvents[i], "awaitingEvents agrees with the ghost state")
		if st.parkedMetric[i] {
			mh++
		}
		if st.parkedEvents[i] > 0 {
			eh++
		}
		ei += st.parkedEvents[i]
	}
	verifAssert(ch.statsMetricHostsQueued == uint64(mh) && ch.statsEventHostsQueued == uint64(eh) && ch.statsEventItemsQueued == uint64(ei),
		"queue gauges equal the true numbers of hosts and items waiting")
	// every parked event holds one count of the wait group (released when it is forwarded)
	verifAssert(verifWaitGroupCount(&ch.wg) == ei, "event wait-group counter equals the number of parked events")
}

func verifC11Hist(steps int) {
	st := verifC11New()
	for i := 0; i < steps; i++ {
		st.step()
	}
}

// VerifC11_Step: one real operation from an ARBITRARY state satisfying the invariant: covers
// histories of any length.
func VerifC11_Step() {
	st := verifC11New()
	st.arbitrary()
	st.step()
}

func VerifC11_Hist2() { verifC11Hist(2) }
func VerifC11_Hist3() { verifC11Hist(3) }
func VerifC11_Hist4() { verifC11Hist(4) }

func VerifC11_Twin() {
	verifC11Hist(3)
	verifAssert(false, "twin-false")
}
