package statsd

import (
	"context"
	"errors"
	"time"

	"github.com/atlassian/gostatsd"
	"github.com/atlassian/gostatsd/pkg/stats"
)

// VerifC16_Flusher: the flusher's side of the callback contract. The real flushData (Process
// over the real BackendHandler's worker goroutines, Flush / Process / Reset of the real
// aggregators, sendMetricsAsync with its wait group) with 1..3 backends that answer at once or
// later (symbolic per backend), with or without an error (symbolic), one of which may cancel
// the daemon's context while it is being handed the flush: flushData returns once every
// backend has answered (a flush that never returns is a violation), every backend is handed
// each aggregator's map exactly once, and a second flush is still carried out.

type verifLateBackend struct {
	sends   int
	pending []gostatsd.SendCallback
	late    bool
	fail    bool
	cancel  context.CancelFunc
}

func (b *verifLateBackend) Name() string { return "late" }
func (b *verifLateBackend) SendEvent(ctx context.Context, e *gostatsd.Event) error { return nil }
func (b *verifLateBackend) SendMetricsAsync(ctx context.Context, mm *gostatsd.MetricMap, cb gostatsd.SendCallback) {
	b.sends++
	if b.cancel != nil {
		b.cancel() // the daemon is shut down while this backend is being handed the flush
	}
	var errs []error
	if b.fail {
		errs = []error{errors.New("boom")}
	}
	if b.late {
		b.pending = append(b.pending, func([]error) { cb(errs) })
		return
	}
	cb(errs)
}

func VerifC16_Flusher() {
	nb := []int{1, 2, 3}[nondetIntIn(0, 2)] // (indexing forks: a concrete count per path)
	var lates, fails [3]bool
	canceller := nondetIntIn(-1, 2) // which backend (if any, and if it exists) coincides with shutdown
	for i := 0; i < nb; i++ {
		lates[i], fails[i] = nondetBool(), nondetBool()
	}
	ctx, cancel := context.WithCancel(context.Background())
	defer cancel()
	var bes []*verifLateBackend
	var backends []gostatsd.Backend
	for i := 0; i < nb; i++ {
		b := &verifLateBackend{late: lates[i], fail: fails[i]}
		if i == canceller {
			b.cancel = cancel
		}
		bes = append(bes, b)
		backends = append(backends, b)
	}
	af := AggregatorFactoryFunc(func() Aggregator {
		a := NewMetricAggregator(nil, 0, 0, 0, 0, gostatsd.TimerSubtypes{}, 0)
		a.now = func() time.Time { return time.Unix(100, 0) }
		return a
	})
	nw := []int{1, 2}[nondetIntIn(0, 1)]
	bh := NewBackendHandler(backends, 1, nw, 1, af)
	for _, w := range bh.workers {
		go w.work()
	}
	fl := NewMetricFlusher(10*time.Second, 0, false, bh, backends)
	mm := gostatsd.NewMetricMap(false)
	mm.Counters["a"] = map[string]gostatsd.Counter{"": {Value: 1}}
	bh.DispatchMetricMap(ctx, mm)
	verifSettle()
	// late backends answer when everything else has come to rest
	go func() {
		for round := 0; round < 4; round++ {
			verifSettle()
			for _, b := range bes {
				for _, cb := range b.pending {
					cb(nil)
				}
				b.pending = nil
			}
		}
	}()
	returned := 0
	for f := 0; f < 2; f++ {
		fl.flushData(ctx, 10*time.Second, stats.NewNullStatser())
		returned++
		if ctx.Err() != nil {
			break // after shutdown no further flush is started
		}
	}
	verifAssert(returned >= 1, "the flush returns once every backend has answered")
	for _, b := range bes {
		if ctx.Err() == nil {
			verifAssert(b.sends == 2*nw, "every backend is handed each aggregator's map exactly once per flush")
		}
		verifAssert(len(b.pending) == 0, "no answer is still owed when the flush has returned")
	}
	verifReach("flushed-twice-or-shutdown")
}
