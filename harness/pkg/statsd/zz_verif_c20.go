package statsd

import (
	"bytes"
	"context"
	"errors"
	"io"
	"net/http"
	"strings"
	"time"

	"github.com/atlassian/gostatsd"
	"github.com/atlassian/gostatsd/internal/awslambda/extension"
	"github.com/atlassian/gostatsd/internal/awslambda/extension/telemetry"
	"github.com/atlassian/gostatsd/internal/flush"
	"github.com/atlassian/gostatsd/pkg/web"
)

// C20: the Lambda extension asks for the next invocation only after flushing.
//
// Wired together for real: extension.manager.Run (register, start of the server, start-up
// window, heartbeat: Flush, then WaitForFlush -> GET /next), the telemetry handler (JSON batch
// -> coordinator.Flush on a runtimeDone record), the flush coordinator, the forwarder
// (consolidator, Run loop, postMetrics, notifyFlush) and the ingestion handler of the upstream
// server. Harness: the Lambda runtime API (a RoundTripper: /register, long-polling /event/next,
// /init/error), the upstream transport with latency (the request is "in flight" while every
// other goroutine runs), the lambda function (dispatching datapoints) and the platform
// (telemetry batches).

type verifCountingFC struct {
	flush.Coordinator
	flushes, notifies int
}

func (c *verifCountingFC) Flush()       { c.flushes++; c.Coordinator.Flush() }
func (c *verifCountingFC) NotifyFlush() { c.notifies++; c.Coordinator.NotifyFlush() }

type verifLambdaRuntime struct {
	log       []string
	nextCalls int
	events    chan string // what /event/next answers (long poll: blocks until the platform has an event)
	onNext    func(k int)
	initErrs  int
}

func verifJSONResponse(code int, body string) *http.Response {
	h := http.Header{}
	h.Set("Lambda-Extension-Identifier", "ext-id")
	return &http.Response{StatusCode: code, Body: io.NopCloser(strings.NewReader(body)), Header: h}
}

func (r *verifLambdaRuntime) RoundTrip(req *http.Request) (*http.Response, error) {
	p := req.URL.Path
	r.log = append(r.log, p)
	switch {
	case strings.HasSuffix(p, "/extension/register"):
		return verifJSONResponse(200, `{"functionName":"f","functionVersion":"1","handler":"h"}`), nil
	case strings.HasSuffix(p, "/extension/event/next"):
		r.nextCalls++
		r.onNext(r.nextCalls)
		ev := <-r.events
		return verifJSONResponse(200, `{"eventType":"`+ev+`","requestId":"r"}`), nil
	case strings.HasSuffix(p, "/extension/init/error"):
		r.initErrs++
		return verifJSONResponse(202, `{}`), nil
	}
	return verifJSONResponse(202, `{}`), nil
}

// the upstream transport: the POST is in flight while everybody else runs, then it is handled
type verifSlowUpstream struct {
	inner    *verifUpstream
	inFlight int
	done     int
	// verySlow: some requests (symbolic) take several seconds - every pending timer fires
	// while they are in flight
	verySlow bool
}

func (u *verifSlowUpstream) RoundTrip(req *http.Request) (*http.Response, error) {
	u.inFlight++
	verifYield() // latency
	if u.verySlow && nondetBool() {
		verifAdvanceTime()
		verifAdvanceTime()
		verifYield()
	}
	resp, err := u.inner.RoundTrip(req)
	u.inFlight--
	u.done++
	return resp, err
}

type verifLambdaServer struct {
	run func(ctx context.Context) error
}

func (s *verifLambdaServer) Run(ctx context.Context) error { return s.run(ctx) }

// telemetry batches of an invocation: other record types around exactly one runtimeDone record
var verifTelemetryBatches = []string{
	`[{"type":"platform.runtimeDone"}]`,
	`[{"type":"platform.start"},{"type":"platform.runtimeDone"},{"type":"platform.report"}]`,
	`[{"type":"platform.runtimeDone","record":{"status":"success"}},{"type":"platform.report"}]`,
	`[{"type":"platform.initRuntimeDone"},{"type":"platform.initReport"},{"type":"platform.start"},{"type":"platform.runtimeDone"}]`,
}

// batches without a runtimeDone record (cold start, extension and log records): no flush
var verifOtherBatches = []string{
	`[{"type":"platform.initStart"},{"type":"platform.initRuntimeDone"},{"type":"platform.initReport"}]`,
	`[{"type":"platform.telemetrySubscription"},{"type":"platform.extension"}]`,
	`[]`,
}

func verifC20(nInvocations int, verySlow bool) {
	verifTimersManual()
	hfh, up := verifNewForwarder(false, 16, false, web.Zlib, 30*time.Second)
	slow := &verifSlowUpstream{inner: up, verySlow: verySlow}
	hfh.client = &http.Client{Transport: slow}
	fc := &verifCountingFC{Coordinator: flush.NewFlushCoordinator()}
	hfh.flushCoordinator = fc
	hfh.consolidatedMetrics = make(chan []*gostatsd.MetricMap)
	hfh.consolidator = gostatsd.NewMetricConsolidator(nondetIntIn(1, 2), false, time.Second, hfh.consolidatedMetrics) // the default http-transport flush-interval; irrelevant in manual-flush mode unless the ticker runs
	fc.RegisterFlushable(hfh.consolidator)
	hfh.metricsSem = make(chan struct{}, 2)
	hfh.metricsSem <- struct{}{}
	hfh.metricsSem <- struct{}{}
	hfh.metricsMergingSem = make(chan struct{}, 1)
	hfh.metricsMergingSem <- struct{}{}

	runtimeDones := 0
	var dispatched, flushedUpTo int64 // counter totals: dispatched so far / dispatched before the latest runtime-done
	delivered := func() int64 {
		var t int64
		for _, m := range up.rec.maps {
			for _, c := range m.Counters["c"] {
				t += c.Value
			}
		}
		return t
	}
	rt := &verifLambdaRuntime{events: make(chan string)}
	rt.onNext = func(k int) {
		verifAssert(fc.flushes >= k, "GET /next is preceded by a flush (the initial one, then one per finished invocation)")
		verifAssert(runtimeDones >= k-1, "the next event is requested before the current invocation's runtime-done flush (a flush notification was left over)")
		verifAssert(slow.inFlight == 0, "GET /next is not issued while a flush's upstream POST is in flight")
		verifAssert(delivered() == flushedUpTo, "every datapoint accepted before the runtime-done signal has reached the upstream server before GET /next")
		verifReach("next")
	}
	srv := &verifLambdaServer{run: func(ctx context.Context) error {
		hfh.Run(ctx)
		return ctx.Err()
	}}
	ts := telemetry.VerifNewServer(fc.Flush)
	m := extension.VerifNewManager(&http.Client{Transport: rt}, fc, srv)
	ctx, cancel := context.WithCancel(context.Background())
	var runErr error
	finished := false
	go func() {
		runErr = m.Run(ctx)
		finished = true
	}()
	verifSettle()
	verifAdvanceTime() // the 100 ms start-up window passes without a server error
	verifSettle()
	post := func(body string) {
		req, _ := http.NewRequest("POST", "http://sandbox:8083/telemetry", bytes.NewReader([]byte(body)))
		ts.VerifEventHandler(&verifRespWriter{hdr: http.Header{}}, req)
		verifSettle()
	}
	for i := 0; i < nInvocations; i++ {
		verifAssert(rt.nextCalls == i+1, "the extension is waiting in GET /next between invocations")
		if nondetBool() {
			// telemetry that is not about the end of an invocation (cold start records etc.)
			post(verifOtherBatches[nondetIntIn(0, len(verifOtherBatches)-1)])
			verifAssert(rt.nextCalls == i+1, "telemetry without a runtimeDone record does not make the extension ask for another event")
		}
		rt.events <- "INVOKE"
		verifSettle()
		if verySlow && nondetBool() {
			// the invocation itself lasts several seconds: every pending timer fires
			verifAdvanceTime()
			verifAdvanceTime()
			verifSettle()
		}
		// the function runs and emits datapoints
		n := nondetIntIn(0, 2)
		for j := 0; j < n; j++ {
			v := int64(nondetIntIn(1, 5))
			mm := gostatsd.NewMetricMap(false)
			mm.Counters["c"] = map[string]gostatsd.Counter{"": {Value: v}}
			hfh.DispatchMetricMap(ctx, mm)
			dispatched += v
		}
		// the runtime is done: the platform posts a telemetry batch with one runtimeDone record
		flushedUpTo = dispatched
		runtimeDones++
		post(verifTelemetryBatches[nondetIntIn(0, len(verifTelemetryBatches)-1)])
	}
	verifAssert(rt.nextCalls == nInvocations+1, "after the last invocation's flush the extension asks for the next event")
	rt.events <- "SHUTDOWN"
	verifSettle()
	cancel()
	verifSettle()
	verifAssert(finished, "the manager returns after SHUTDOWN and cancellation")
	verifAssert(runErr == nil || errors.Is(runErr, context.Canceled), "a clean shutdown is not an error")
	verifAssert(rt.initErrs == 0, "no init error is reported when the server started")
	verifReach("done")
}

func VerifC20_1() { verifC20(1, true) }
func VerifC20_2() { verifC20(2, false) }

// a server failure during start-up is reported to the runtime's init-error endpoint and no
// event is requested
func VerifC20_InitError() {
	verifTimersManual()
	rt := &verifLambdaRuntime{events: make(chan string)}
	rt.onNext = func(k int) { verifAssert(false, "GET /next is issued although the server failed during start-up") }
	boom := errors.New("listen udp :8125: address already in use")
	srv := &verifLambdaServer{run: func(ctx context.Context) error { return boom }}
	fc := &verifCountingFC{Coordinator: flush.NewFlushCoordinator()}
	m := extension.VerifNewManager(&http.Client{Transport: rt}, fc, srv)
	err := m.Run(context.Background())
	verifAssert(err != nil, "a start-up failure makes Run return an error")
	verifAssert(rt.initErrs == 1, "a server failure during start-up is reported to the init-error endpoint exactly once")
	verifReach("init-error")
}

func VerifC20_Twin() {
	verifC20(1, false)
	verifAssert(false, "twin-false")
}
