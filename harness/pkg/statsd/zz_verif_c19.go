package statsd

import (
	"context"
	"time"

	"github.com/atlassian/gostatsd"
	"github.com/atlassian/gostatsd/internal/lexer"
	"github.com/atlassian/gostatsd/internal/pool"
	"github.com/atlassian/gostatsd/pkg/backends/statsdaemon"
)

// C19: every event is delivered once to every backend with its fields intact.
// Real chain: handleDatagram -> CloudHandler.DispatchEvent (-> handleIncomingEvent ->
// handleInstanceInfo -> updateAndDispatchEvents) -> TagHandler.DispatchEvent ->
// BackendHandler.DispatchEvent/internalDispatchEvent -> Backend.SendEvent, then WaitForEvents.

type verifEventBackend struct {
	events []*gostatsd.Event
	// when set: the cloud handler whose wait group must still count an event that was parked
	parkedIn *CloudHandler
}

func (b *verifEventBackend) Name() string { return "rec" }
func (b *verifEventBackend) SendMetricsAsync(ctx context.Context, mm *gostatsd.MetricMap, cb gostatsd.SendCallback) {
	cb(nil)
}
func (b *verifEventBackend) SendEvent(ctx context.Context, e *gostatsd.Event) error {
	// a backend honours the context it is given: a delivery whose context is already done fails
	if err := ctx.Err(); err != nil {
		return err
	}
	if b.parkedIn != nil {
		verifAssert(verifWaitGroupCount(&b.parkedIn.wg) > 0, "the cloud stage released its wait group before a parked event reached the backends (WaitForEvents could return early)")
	}
	b.events = append(b.events, e)
	return nil
}

type verifCache19 struct {
	mode int // 0 miss, 1 negative hit, 2 positive hit
	inst *gostatsd.Instance
}

func (c *verifCache19) Peek(ip gostatsd.Source) (*gostatsd.Instance, bool) {
	switch c.mode {
	case 0:
		return nil, false
	case 1:
		return nil, true
	}
	return c.inst, true
}
func (c *verifCache19) IpSink() chan<- gostatsd.Source          { return nil }
func (c *verifCache19) InfoSource() <-chan gostatsd.InstanceInfo { return nil }
func (c *verifCache19) EstimatedTags() int                       { return 0 }

func verifC19(nBackends int) {
	var backends []gostatsd.Backend
	var recs []*verifEventBackend
	for i := 0; i < nBackends; i++ {
		r := &verifEventBackend{}
		recs = append(recs, r)
		backends = append(backends, r)
	}
	maxConc := uint(nondetIntIn(1, 3))
	bh := NewBackendHandler(backends, maxConc, 1, 1, AggregatorFactoryFunc(func() Aggregator {
		return NewMetricAggregator(nil, 0, 0, 0, 0, gostatsd.TimerSubtypes{}, 0)
	}))
	staticTag := "st:" + string(verifTagBytes(1))
	th := NewTagHandler(bh, gostatsd.Tags{staticTag}, nil)
	inst := &gostatsd.Instance{ID: "i-abc", Tags: gostatsd.Tags{"region:r1"}}
	cache := &verifCache19{mode: nondetIntIn(0, 2), inst: inst}
	ch := NewCloudHandler(cache, th)
	ch.incomingEvents = make(chan *gostatsd.Event, 2)
	ch.incomingMetrics = make(chan *gostatsd.MetricMap, 2)
	mp := pool.NewMetricPool(0)
	dp := verifNewParser("", false, nil, mp)
	dp.handler = ch
	nowCell := int64(1700000000) * 1000000000
	verifSetNow(&nowCell)

	// the event line, generated from pieces
	title := verifTagBytes(1)
	exp := gostatsd.Event{Title: string(title)}
	line := []byte{'_', 'e', '{', '1', ','}
	escaped := nondetBool()
	if escaped {
		line = append(line, '3', '}', ':', title[0], '|', 'a', '\\', 'n')
		exp.Text = "a\n"
	} else {
		tx := verifTagBytes(2)
		verifAssume(!(tx[0] == '\\' && tx[1] == 'n'))
		line = append(line, '2', '}', ':', title[0], '|', tx[0], tx[1])
		exp.Text = string(tx)
	}
	if nondetBool() {
		line = append(line, "|d:77"...)
		exp.DateHappened = 77
	} else {
		exp.DateHappened = 1700000000 // receipt time
	}
	if nondetBool() {
		k := verifTagBytes(1)
		line = append(line, '|', 'k', ':', k[0])
		exp.AggregationKey = string(k)
	}
	if nondetBool() {
		line = append(line, "|s:src|p:low|t:warning"...)
		exp.SourceTypeName, exp.Priority, exp.AlertType = "src", gostatsd.PriLow, gostatsd.AlertWarning
	}
	evTag := ""
	if nondetBool() {
		tb := verifTagBytes(1)
		evTag = "st:" + string(tb) // may coincide with the static tag
		line = append(line, '|', '#', 's', 't', ':', tb[0])
	}
	ctx := context.Background()
	l := &lexer.Lexer{MetricPool: mp}
	_, nEvents, nBad := dp.handleDatagram(ctx, l, 5, "10.9.8.7", line)
	verifAssert(nEvents == 1 && nBad == 0, "the event line is accepted")
	expSource := gostatsd.Source("10.9.8.7")
	cloudTagged := false
	if cache.mode == 0 {
		// miss: parked until the lookup completes
		verifAssert(len(ch.incomingEvents) == 1, "an event with an unknown sender is handed to the lookup loop")
		for _, r := range recs {
			verifAssert(len(r.events) == 0, "an event must not reach a backend before its sender's lookup completed")
		}
		ch.handleIncomingEvent(<-ch.incomingEvents)
		for _, r := range recs {
			r.parkedIn = ch
		}
		var in *gostatsd.Instance
		if nondetBool() {
			in = inst
		}
		ch.handleInstanceInfo(ctx, gostatsd.InstanceInfo{IP: "10.9.8.7", Instance: in})
		verifYield()
		cloudTagged = in != nil
		verifReach("after-lookup")
	} else {
		cloudTagged = cache.mode == 2
		verifReach("cache-hit")
	}
	if cloudTagged {
		expSource = inst.ID
	}
	ch.WaitForEvents()
	verifAssert(verifWaitGroupCount(&ch.wg) == 0 && verifWaitGroupCount(&bh.eventWg) == 0, "wait-group counters are back to zero after WaitForEvents")
	verifAssert(len(bh.concurrentEvents) == 0, "event semaphore fully released")
	for _, r := range recs {
		verifAssert(len(r.events) == 1, "each backend receives the event exactly once")
		if len(r.events) != 1 {
			continue
		}
		e := r.events[0]
		verifAssert(e.Title == exp.Title && e.Text == exp.Text, "title and text (escaped newlines restored) preserved")
		verifAssert(e.DateHappened == exp.DateHappened, "event time preserved, or the receipt time when absent")
		verifAssert(e.AggregationKey == exp.AggregationKey && e.SourceTypeName == exp.SourceTypeName, "aggregation key and source type preserved")
		verifAssert(e.Priority == exp.Priority && e.AlertType == exp.AlertType, "priority and alert type preserved")
		verifAssert(e.Source == expSource, "source is the sender address, or the instance id after a successful lookup")
		// tags: the event's own tag, the static tag (no duplicates), the cloud tags
		wantN := 1
		if evTag != "" && evTag != staticTag {
			wantN = 2
		}
		if cloudTagged {
			wantN++
		}
		verifAssert(len(e.Tags) == wantN, "event tags = own tags + static tags without duplicates + cloud tags")
		has := func(t string) bool {
			for _, x := range e.Tags {
				if x == t {
					return true
				}
			}
			return false
		}
		verifAssert(has(staticTag), "static tag added")
		if evTag != "" {
			verifAssert(has(evTag), "own tag preserved")
		}
		if cloudTagged {
			verifAssert(has("region:r1"), "cloud tags added after the lookup")
		}
	}
	verifReach("delivered")
}

func VerifC19_0() { verifC19(0) }
func VerifC19_1() { verifC19(1) }
func VerifC19_2() { verifC19(2) }
func VerifC19_3() { verifC19(3) }

func VerifC19_Twin() {
	verifC19(1)
	verifAssert(false, "twin-false")
}

var _ = time.Second

// VerifC17_EventViaParser: what the statsd relay emits for an event is parsed back by the real
// DatagramParser (which splits datagrams on newlines) to the same event. The title may contain
// any byte but NUL (an event ingested over HTTP may carry a newline in its title).
func VerifC17_EventViaParser() {
	tb := nondetBytes(2)
	verifAssume(tb[0] != 0 && tb[1] != 0)
	e := &gostatsd.Event{Title: string(tb), Text: "x", DateHappened: 5}
	msg := statsdaemon.VerifConstructEventMessage(e).Bytes()
	rec := &verifRecorder{}
	mp := pool.NewMetricPool(0)
	dp := verifNewParser("", false, rec, mp)
	l := &lexer.Lexer{MetricPool: mp}
	_, nEvents, nBad := dp.handleDatagram(context.Background(), l, 5, "1.1.1.1", append([]byte{}, msg...))
	if tb[0] == '\n' || tb[1] == '\n' {
		verifAssert(nEvents == 1 && nBad == 0 && len(rec.events) == 1 && rec.events[0].Title == e.Title, "relayed event whose title contains a newline does not parse back")
		return
	}
	verifAssert(nEvents == 1 && nBad == 0 && len(rec.events) == 1, "relayed event parses back through the datagram parser")
	if len(rec.events) == 1 {
		verifAssert(rec.events[0].Title == e.Title && rec.events[0].Text == "x" && rec.events[0].DateHappened == 5, "relayed event fields through the datagram parser")
	}
	verifReach("via-parser")
}

// verifC19Two: two events in one datagram (symbolic titles) from one sender, or in two
// datagrams from two senders (symbolic), through the same chain; on a cache miss both are
// parked and the lookup answers arrive in a symbolic order. Each backend receives each event
// exactly once with its own title and the source of its own sender; accounting as above.
func verifC19Two(nBackends int) {
	var backends []gostatsd.Backend
	var recs []*verifEventBackend
	for i := 0; i < nBackends; i++ {
		r := &verifEventBackend{}
		recs = append(recs, r)
		backends = append(backends, r)
	}
	maxConc := uint(nondetIntIn(1, 2))
	bh := NewBackendHandler(backends, maxConc, 1, 1, AggregatorFactoryFunc(func() Aggregator {
		return NewMetricAggregator(nil, 0, 0, 0, 0, gostatsd.TimerSubtypes{}, 0)
	}))
	th := NewTagHandler(bh, gostatsd.Tags{"st:1"}, nil)
	inst := &gostatsd.Instance{ID: "i-abc", Tags: gostatsd.Tags{"region:r1"}}
	cache := &verifCache19{mode: nondetIntIn(0, 2), inst: inst}
	ch := NewCloudHandler(cache, th)
	ch.incomingEvents = make(chan *gostatsd.Event, 4)
	ch.incomingMetrics = make(chan *gostatsd.MetricMap, 2)
	mp := pool.NewMetricPool(0)
	dp := verifNewParser("", false, nil, mp)
	dp.handler = ch
	nowCell := int64(1700000000) * 1000000000
	verifSetNow(&nowCell)
	ta, tb := verifTagBytes(1), verifTagBytes(1)
	lineA := []byte{'_', 'e', '{', '1', ',', '1', '}', ':', ta[0], '|', 'x'}
	lineB := []byte{'_', 'e', '{', '1', ',', '1', '}', ':', tb[0], '|', 'y'}
	// wire tags (0 or 3 per event): an event held back while the next one is lexed keeps its own
	wireA, wireB := []string{"a:1", "b:2", "c:3"}, []string{"d:4", "e:5", "f:6"}
	if nondetBool() {
		lineA = append(lineA, []byte("|#a:1,b:2,c:3")...)
		lineB = append(lineB, []byte("|#d:4,e:5,f:6")...)
		verifReach("wire-tags")
	} else {
		wireA, wireB = nil, nil
	}
	ctx := context.Background()
	l := &lexer.Lexer{MetricPool: mp}
	ipA, ipB := gostatsd.Source("10.0.0.1"), gostatsd.Source("10.0.0.1")
	if nondetBool() {
		// one datagram, two lines
		dg := append(append(append([]byte{}, lineA...), '\n'), lineB...)
		_, nEvents, nBad := dp.handleDatagram(ctx, l, 5, ipA, dg)
		verifAssert(nEvents == 2 && nBad == 0, "both event lines are accepted")
	} else {
		ipB = "10.0.0.2"
		_, n1, b1 := dp.handleDatagram(ctx, l, 5, ipA, lineA)
		_, n2, b2 := dp.handleDatagram(ctx, l, 5, ipB, lineB)
		verifAssert(n1 == 1 && n2 == 1 && b1 == 0 && b2 == 0, "both event lines are accepted")
		verifReach("two-senders")
	}
	// a metric batch of the first sender may be waiting for the same lookup
	withMetric := nondetBool()
	if withMetric {
		mm := gostatsd.NewMetricMap(false)
		mm.Counters["m"] = map[string]gostatsd.Counter{"": {Value: 1, Source: ipA, Timestamp: 1}}
		ch.DispatchMetricMap(ctx, mm)
	}
	tagged := map[gostatsd.Source]bool{}
	if cache.mode == 0 {
		if withMetric {
			verifAssert(len(ch.incomingMetrics) == 1, "a metric batch with an unknown sender is handed to the lookup loop")
			ch.handleIncomingMetrics(<-ch.incomingMetrics)
			verifReach("metric-and-events-parked")
		}
		verifAssert(len(ch.incomingEvents) == 2, "events with unknown senders are handed to the lookup loop")
		for _, r := range recs {
			verifAssert(len(r.events) == 0, "an event must not reach a backend before its sender's lookup completed")
			// symbolically (one cooperative schedule) the backends run inside the cloud stage's dispatch;
			// natively they run whenever the Go scheduler gets to them, possibly after both events were
			// released, so the in-SendEvent wait-group observation is only meaningful symbolically here
			// (the single-event entries replay it natively)
			if !verifNative() {
				r.parkedIn = ch
			}
		}
		ch.handleIncomingEvent(<-ch.incomingEvents)
		ch.handleIncomingEvent(<-ch.incomingEvents)
		answer := func(ip gostatsd.Source) {
			var in *gostatsd.Instance
			if nondetBool() {
				in = inst
			}
			ch.handleInstanceInfo(ctx, gostatsd.InstanceInfo{IP: ip, Instance: in})
			verifYield()
			tagged[ip] = in != nil
		}
		if ipA == ipB {
			answer(ipA)
		} else if nondetBool() {
			answer(ipA)
			answer(ipB)
		} else {
			answer(ipB)
			answer(ipA)
		}
		verifReach("after-lookup")
	} else {
		tagged[ipA], tagged[ipB] = cache.mode == 2, cache.mode == 2
	}
	ch.WaitForEvents()
	verifAssert(verifWaitGroupCount(&ch.wg) == 0 && verifWaitGroupCount(&bh.eventWg) == 0, "wait-group counters are back to zero after WaitForEvents")
	verifAssert(len(bh.concurrentEvents) == 0, "event semaphore fully released")
	for _, r := range recs {
		verifAssert(len(r.events) == 2, "each backend receives each of the two events exactly once")
		na, nb := 0, 0
		for _, e := range r.events {
			wantSrc := func(ip gostatsd.Source) gostatsd.Source {
				if tagged[ip] {
					return inst.ID
				}
				return ip
			}
			switch {
			case e.Text == "x":
				na++
				verifAssert(e.Title == string(ta) && e.Source == wantSrc(ipA), "the first event keeps its title and gets its own sender's source")
				verifAssert(verifHasAll(e.Tags, wireA) && verifHasNone(e.Tags, wireB), "the first event keeps its own tags and gets none of the second event's")
			case e.Text == "y":
				nb++
				verifAssert(e.Title == string(tb) && e.Source == wantSrc(ipB), "the second event keeps its title and gets its own sender's source")
				verifAssert(verifHasAll(e.Tags, wireB) && verifHasNone(e.Tags, wireA), "the second event keeps its own tags and gets none of the first event's")
			}
		}
		verifAssert(na == 1 && nb == 1, "no event is delivered twice or swapped for the other")
	}
	verifReach("delivered-two")
}

func VerifC19_Two1() { verifC19Two(1) }
func VerifC19_Two2() { verifC19Two(2) }

func VerifC19_Two3() { verifC19Two(3) }

func verifHasAll(tags gostatsd.Tags, want []string) bool {
	for _, w := range want {
		n := 0
		for _, t := range tags {
			if t == w {
				n++
			}
		}
		if n != 1 {
			return false
		}
	}
	return true
}

func verifHasNone(tags gostatsd.Tags, others []string) bool {
	for _, w := range others {
		for _, t := range tags {
			if t == w {
				return false
			}
		}
	}
	return true
}
