package statsd

import (
	"math"
	"strconv"
	"time"

	"github.com/atlassian/gostatsd"
)

// C08: timer statistics are those of the received multiset (math mode: exact real arithmetic).

func verifMinMaxF(a, b float64) (float64, float64) {
	lo, hi := a, b
	if a > b {
		lo, hi = b, a
	}
	return lo, hi
}

// verifSortN sorts the first n (<= 6) values with a sorting network (no control flow on data);
// unused slots hold a large sentinel.
func verifSortN(v [6]float64) [6]float64 {
	pairs := [][2]int{{0, 5}, {1, 3}, {2, 4}, {1, 2}, {3, 4}, {0, 3}, {2, 5}, {0, 1}, {2, 3}, {4, 5}, {1, 2}, {3, 4}}
	for _, p := range pairs {
		v[p[0]], v[p[1]] = verifMinMaxF(v[p[0]], v[p[1]])
	}
	return v
}

// verifEqR: equality of two real-valued results. Symbolically (math mode) it is exact equality
// over the reals; in the native replay the same quantities are float64s computed along
// different but algebraically equal routes, so a relative tolerance is used there.
func verifEqR(a, b float64) bool {
	if !verifNative() {
		return a == b
	}
	d := a - b
	if d < 0 {
		d = -d
	}
	m := a
	if m < 0 {
		m = -m
	}
	if b > m {
		m = b
	}
	if -b > m {
		m = -b
	}
	return d <= 1e-9*m+1e-12
}

type verifPct struct {
	name string
	val  float64
}

func verifC08Stats(n int) {
	p := nondetIntIn(-100, 100)
	verifAssume(p != 0)
	var dis gostatsd.TimerSubtypes
	// the mask: four independent symbolic switches (count; mean/sum/sum_squares; upper boundary; lower boundary)
	d1, d2, d3, d4 := nondetBool(), nondetBool(), nondetBool(), nondetBool()
	dis.CountPct, dis.MeanPct, dis.SumPct, dis.SumSquaresPct = d1, d2, !d2, d2
	dis.UpperPct, dis.LowerPct = d3, d4 // independent: one boundary may be disabled while the other is not
	a := NewMetricAggregator([]float64{float64(p)}, 0, 0, 0, 0, dis, 0)
	a.now = func() time.Time { return time.Unix(100, 0) }
	vals := make([]float64, n)
	var sorted [6]float64
	for i := 0; i < 6; i++ {
		sorted[i] = 1e300
	}
	for i := range vals {
		vals[i] = nondetFloat64()
		verifAssume(vals[i] > -1000000 && vals[i] < 1000000)
		sorted[i] = vals[i]
	}
	sorted = verifSortN(sorted)
	sampled := nondetFloat64()
	verifAssume(sampled >= 0 && sampled < 1000000)
	intervalNs := nondetInt64In(1, int64(24*time.Hour))
	mm := gostatsd.NewMetricMap(false)
	mm.Timers["t"] = map[string]gostatsd.Timer{"": {Values: vals, SampledCount: sampled, Timestamp: 10}}
	a.ReceiveMap(mm)
	a.Flush(time.Duration(intervalNs))
	t := a.metricMap.Timers["t"][""]
	secs := float64(intervalNs) / float64(time.Second)

	if n == 0 {
		verifReach("empty")
		verifAssert(t.Count == 0 && t.PerSecond == 0 && len(t.Percentiles) == 0, "empty timer: count 0, rate 0, no percentiles")
		return
	}
	fn := float64(n)
	var sum, sumsq float64
	for i := 0; i < n; i++ {
		sum += sorted[i]
		sumsq += sorted[i] * sorted[i]
	}
	mean := sum / fn
	verifAssert(t.Min == sorted[0], "min")
	verifAssert(t.Max == sorted[n-1], "max")
	verifAssert(verifEqR(t.Sum, sum), "sum")
	verifAssert(verifEqR(t.SumSquares, sumsq), "sum of squares")
	verifAssert(verifEqR(t.Mean, mean), "mean")
	if n%2 == 1 {
		verifAssert(t.Median == sorted[n/2], "median (odd n)")
	} else {
		verifAssert(verifEqR(t.Median, (sorted[n/2-1]+sorted[n/2])/2), "median (even n)")
	}
	var varsum float64
	for i := 0; i < n; i++ {
		varsum += (sorted[i] - mean) * (sorted[i] - mean)
	}
	verifAssert(t.StdDev >= 0 && verifEqR(t.StdDev*t.StdDev, varsum/fn), "population standard deviation")
	verifAssert(verifEqR(t.PerSecond, sampled/secs), "per-second = sampled/interval")
	// count = round(sampled) = floor(sampled + 0.5)
	verifAssert(float64(t.Count) <= sampled+0.5 && sampled+0.5 < float64(t.Count)+1, "count = round(sampled count)")

	// percentile: k = round(|p|/100*n), k = 1 when n == 1, omitted when k == 0
	absp := p
	if p < 0 {
		absp = -p
	}
	k := n
	if n > 1 {
		// k = floor(|p|*n/100 + 1/2) = (2*|p|*n + 100) div 200
		k = (2*absp*n + 100) / 200
	}
	var exp []verifPct
	if k > 0 {
		sp := strconv.Itoa(p)
		var psum, psumsq, bound float64
		if n == 1 {
			psum, psumsq, bound = sorted[0], sorted[0]*sorted[0], sorted[0]
		} else if p > 0 {
			for i := 0; i < n; i++ {
				if i < k {
					psum += sorted[i]
					psumsq += sorted[i] * sorted[i]
				}
			}
			bound = sorted[k-1]
		} else {
			for i := 0; i < n; i++ {
				if i >= n-k {
					psum += sorted[i]
					psumsq += sorted[i] * sorted[i]
				}
			}
			bound = sorted[n-k]
		}
		pmean := psum / float64(k)
		if n == 1 {
			pmean = sorted[0]
		}
		if !dis.CountPct {
			exp = append(exp, verifPct{"count_" + sp, float64(k)})
		}
		if !dis.MeanPct {
			exp = append(exp, verifPct{"mean_" + sp, pmean})
		}
		if !dis.SumPct {
			exp = append(exp, verifPct{"sum_" + sp, psum})
		}
		if !dis.SumSquaresPct {
			exp = append(exp, verifPct{"sum_squares_" + sp, psumsq})
		}
		if p > 0 {
			if !dis.UpperPct {
				exp = append(exp, verifPct{"upper_" + sp, bound})
			}
		} else {
			if !dis.LowerPct {
				exp = append(exp, verifPct{"lower_" + sp, bound})
			}
		}
		verifReach("percentile")
	} else {
		verifReach("percentile-omitted")
	}
	verifAssert(len(t.Percentiles) == len(exp), "number of percentile sub-metrics")
	for i := range exp {
		if i < len(t.Percentiles) {
			verifAssert(t.Percentiles[i].Str == exp[i].name, "percentile sub-metric name")
			verifAssert(verifEqR(t.Percentiles[i].Float, exp[i].val), "percentile sub-metric value (count/mean/sum/sum_squares/boundary of the k lowest or highest)")
		}
	}
}

func VerifC08_Stats0() { verifC08Stats(0) }
func VerifC08_Stats1() { verifC08Stats(1) }
func VerifC08_Stats2() { verifC08Stats(2) }
func VerifC08_Stats3() { verifC08Stats(3) }
func VerifC08_Stats4() { verifC08Stats(4) }
func VerifC08_Stats5() { verifC08Stats(5) }
func VerifC08_Stats6() { verifC08Stats(6) }

func VerifC08_Twin() {
	verifC08Stats(2)
	verifAssert(false, "twin-false")
}

// Rank lemma (machine mode, IEEE float64): the rank the aggregator computes in floating point,
// int(round(|p|/100*n)), equals the integer (2|p|n+100) div 200 and lies in [0,n].
func verifC08Rank(nmax int) {
	p := nondetInt8()
	verifAssume(-100 <= p && p <= 100)
	n := nondetInt32()
	verifAssume(2 <= n && n <= int32(nmax))
	pf := float64(p)
	if pf < 0 {
		pf = -pf
	}
	k := int(round(pf / 100 * float64(n)))
	ap := int(p)
	if ap < 0 {
		ap = -ap
	}
	// exact value x = |p|n/100; a nearest integer k satisfies |k - x| <= 1/2, i.e.
	// 2|p|n - 100 <= 200k <= 2|p|n + 100. (At exact halves such as p=57, n=50 the float64
	// product is 28.499999999999996 and the code rounds down where exact arithmetic would round
	// up: both are nearest integers, recorded as an observation in DESIGN.md.)
	x2 := 2 * ap * int(n)
	verifAssert(0 <= k && k <= int(n), "rank outside [0,n]")
	verifAssert(x2-100 <= 200*k && 200*k <= x2+100, "float rank is not a nearest integer of |p|n/100")
	verifReach("rank")
}

func VerifC08_Rank64()     { verifC08Rank(64) }
func VerifC08_Rank1000()   { verifC08Rank(1000) }
func VerifC08_Rank100000() { verifC08Rank(100000) }

// Histogram (machine mode): a timer tagged gsd_histogram:<items separated by '_'> reports, per
// parsable bound (at most `limit` of them, in order) and +Inf, the number of values <= bound, and
// none of the summary statistics; nothing at all when the limit is 0.
func verifC08Hist(nItems, itemLen, nVals int, limit uint32) {
	tag := []byte(histogramThresholdsTagPrefix)
	var bounds []float64
	for i := 0; i < nItems; i++ {
		if i > 0 {
			tag = append(tag, '_')
		}
		item := nondetBytes(itemLen)
		for j := range item {
			verifAssume(item[j] != '_' && item[j] != 0)
		}
		tag = append(tag, item...)
		if f, err := strconv.ParseFloat(string(item), 64); err == nil {
			bounds = append(bounds, f)
		}
	}
	if uint32(len(bounds)) > limit {
		bounds = bounds[:limit]
	}
	vals := make([]float64, nVals)
	for i := range vals {
		vals[i] = nondetFloat64()
		verifAssume(vals[i] == vals[i]) // the parser rejects NaN values
	}
	a := NewMetricAggregator([]float64{90}, 0, 0, 0, 0, gostatsd.TimerSubtypes{}, limit)
	a.now = func() time.Time { return time.Unix(100, 0) }
	mm := gostatsd.NewMetricMap(false)
	mm.Timers["t"] = map[string]gostatsd.Timer{"": {Values: vals, SampledCount: float64(nVals), Timestamp: 10, Tags: gostatsd.Tags{"a:b", string(tag)}}}
	a.ReceiveMap(mm)
	a.Flush(10 * time.Second)
	t := a.metricMap.Timers["t"][""]
	verifAssert(t.Count == 0 && t.Min == 0 && t.Max == 0 && t.Sum == 0 && t.Mean == 0 && t.Median == 0 && t.StdDev == 0 && t.SumSquares == 0 && t.PerSecond == 0 && len(t.Percentiles) == 0,
		"histogram timer reports none of the summary statistics")
	if limit == 0 {
		verifReach("limit-zero")
		verifAssert(len(t.Histogram) == 0, "bucket limit 0: nothing is reported")
		return
	}
	exp := map[gostatsd.HistogramThreshold]int{}
	for _, b := range bounds {
		exp[gostatsd.HistogramThreshold(b)] = 0
	}
	for _, b := range bounds {
		if b != b {
			continue // a NaN bound can neither be looked up nor counted
		}
		c := 0
		for _, v := range vals {
			if v <= b {
				c++
			}
		}
		exp[gostatsd.HistogramThreshold(b)] = c
	}
	inf := gostatsd.HistogramThreshold(math.Inf(1))
	exp[inf] = nVals
	verifAssert(len(t.Histogram) == len(exp), "histogram has exactly the first min(limit, parsable) bounds and +Inf")
	for b, c := range exp {
		if b != b {
			continue
		}
		got, ok := t.Histogram[b]
		verifAssert(ok, "histogram bound missing")
		verifAssert(got == c, "bucket count is not the number of values not greater than the bound")
	}
	verifReach("histogram")
}

func VerifC08_Hist_1_1_1()   { verifC08Hist(1, 1, 1, 2) }
func VerifC08_Hist_2_1_2()   { verifC08Hist(2, 1, 2, 2) }
func VerifC08_Hist_2_1_2L1() { verifC08Hist(2, 1, 2, 1) }
func VerifC08_Hist_2_2_1()   { verifC08Hist(2, 2, 1, 4294967295) }
func VerifC08_Hist_3_1_2()   { verifC08Hist(3, 1, 2, 2) }
func VerifC08_Hist_L0()      { verifC08Hist(2, 1, 2, 0) }

// Several percentiles per run, fractional ones included: the configured list holds two thresholds
// (a concrete pair chosen by a symbolic index, inserted in either order, so both visiting orders
// of the threshold map are covered symbolically; natively the order is Go's random one and the
// oracle is order-free). Every threshold's sub-metrics must be those of ITS k lowest / highest
// values: nothing may leak from one threshold's iteration into the next.
var verifC08Pairs = [][2]float64{{90, -90}, {50, 99.9}, {12.5, -37.5}, {-100, 100}, {0.1, 75}, {-62.5, -25}, {1, -1}}

func verifC08ExpectPct(p float64, n int, sorted [6]float64, dis gostatsd.TimerSubtypes) []verifPct {
	absp := math.Abs(p)
	k := n
	if n > 1 {
		k = int(math.Floor(absp*float64(n)/100 + 0.5))
	}
	if k == 0 {
		return nil
	}
	sp := strconv.Itoa(int(p))
	var psum, psumsq, bound float64
	if n == 1 {
		psum, psumsq, bound = sorted[0], sorted[0]*sorted[0], sorted[0]
	} else if p > 0 {
		for i := 0; i < k; i++ {
			psum += sorted[i]
			psumsq += sorted[i] * sorted[i]
		}
		bound = sorted[k-1]
	} else {
		for i := n - k; i < n; i++ {
			psum += sorted[i]
			psumsq += sorted[i] * sorted[i]
		}
		bound = sorted[n-k]
	}
	pmean := psum / float64(k)
	if n == 1 {
		pmean = sorted[0]
	}
	var exp []verifPct
	if !dis.CountPct {
		exp = append(exp, verifPct{"count_" + sp, float64(k)})
	}
	if !dis.MeanPct {
		exp = append(exp, verifPct{"mean_" + sp, pmean})
	}
	if !dis.SumPct {
		exp = append(exp, verifPct{"sum_" + sp, psum})
	}
	if !dis.SumSquaresPct {
		exp = append(exp, verifPct{"sum_squares_" + sp, psumsq})
	}
	if p > 0 {
		if !dis.UpperPct {
			exp = append(exp, verifPct{"upper_" + sp, bound})
		}
	} else if !dis.LowerPct {
		exp = append(exp, verifPct{"lower_" + sp, bound})
	}
	return exp
}

func verifC08Multi(n int) {
	pi := nondetIntIn(0, len(verifC08Pairs)-1)
	swap := nondetBool()
	d := nondetBool()
	vals := make([]float64, n)
	var sorted [6]float64
	for i := 0; i < 6; i++ {
		sorted[i] = 1e300
	}
	for i := range vals {
		vals[i] = nondetFloat64()
		verifAssume(vals[i] > -1000 && vals[i] < 1000)
		sorted[i] = vals[i]
	}
	sorted = verifSortN(sorted)
	pair := verifC08Pairs[pi]
	if swap {
		pair[0], pair[1] = pair[1], pair[0]
	}
	var dis gostatsd.TimerSubtypes
	dis.CountPct, dis.SumSquaresPct, dis.LowerPct = d, d, d
	dis.MeanPct, dis.UpperPct = !d, !d
	a := NewMetricAggregator([]float64{pair[0], pair[1]}, 0, 0, 0, 0, dis, 0)
	a.now = func() time.Time { return time.Unix(100, 0) }
	mm := gostatsd.NewMetricMap(false)
	mm.Timers["t"] = map[string]gostatsd.Timer{"": {Values: vals, SampledCount: float64(n), Timestamp: 10}}
	a.ReceiveMap(mm)
	a.Flush(10 * time.Second)
	t := a.metricMap.Timers["t"][""]
	exp := append(verifC08ExpectPct(pair[0], n, sorted, dis), verifC08ExpectPct(pair[1], n, sorted, dis)...)
	verifAssert(len(t.Percentiles) == len(exp), "two thresholds: number of percentile sub-metrics")
	for _, e := range exp {
		found := 0
		for _, got := range t.Percentiles {
			if got.Str == e.name {
				found++
				verifAssert(verifEqR(got.Float, e.val), "two thresholds: sub-metric value is that of its own threshold's k lowest / highest values")
			}
		}
		verifAssert(found == 1, "two thresholds: each expected sub-metric reported exactly once")
	}
	verifReach("multi")
}

func VerifC08_Multi1() { verifC08Multi(1) }
func VerifC08_Multi2() { verifC08Multi(2) }
func VerifC08_Multi3() { verifC08Multi(3) }
func VerifC08_Multi4() { verifC08Multi(4) }
