package statsd

import (
	"context"
	"time"

	"github.com/atlassian/gostatsd"
)

// VerifC11_Loop: the real CloudHandler.Run loop (select over lookup hand-off, lookup answers,
// incoming metrics and events) as a goroutine, the real Dispatch* entry points (cache peek,
// immediate forward or hand-over to the loop), a harness cache (per-source content symbolic:
// unknown / known without instance / known with instance) whose lookup channels the harness
// serves, and a recording downstream handler.

type verifLoopCache struct {
	ipSink     chan gostatsd.Source
	infoSource chan gostatsd.InstanceInfo
	content    [2]int // 0 unknown, 1 known: nothing, 2 known: instance
	inst       [2]*gostatsd.Instance
}

func (c *verifLoopCache) Peek(ip gostatsd.Source) (*gostatsd.Instance, bool) {
	i := verifSrcIndex(ip)
	switch c.content[i] {
	case 0:
		return nil, false
	case 1:
		return nil, true
	}
	return c.inst[i], true
}
func (c *verifLoopCache) IpSink() chan<- gostatsd.Source          { return c.ipSink }
func (c *verifLoopCache) InfoSource() <-chan gostatsd.InstanceInfo { return c.infoSource }
func (c *verifLoopCache) EstimatedTags() int                       { return 0 }

func verifC11Loop(nItems int) {
	verifTimersManual()
	// the script is drawn before any goroutine starts
	cache := &verifLoopCache{ipSink: make(chan gostatsd.Source), infoSource: make(chan gostatsd.InstanceInfo)}
	for i := 0; i < 2; i++ {
		cache.content[i] = nondetIntIn(0, 2)
		cache.inst[i] = &gostatsd.Instance{ID: gostatsd.Source("i-" + string(verifSources[i])), Tags: gostatsd.Tags{"region:r" + string(verifSources[i][:1])}}
	}
	var kind, src [3]int
	var val [3]int64
	for k := 0; k < nItems; k++ {
		// kinds: 0 metric batch of one source, 1 event, 2 metric batch with one series of EACH source
		kind[k], src[k], val[k] = nondetIntIn(0, 2), nondetIntIn(0, 1), int64(nondetIntIn(1, 9))
	}
	var answerFirst int   // which outstanding lookup is answered first
	var answerOK [2]bool  // does the lookup for source i find the instance
	answerFirst, answerOK[0], answerOK[1] = nondetIntIn(0, 1), nondetBool(), nondetBool()
	late := nondetBool() // the last item arrives while the lookups are outstanding

	rec := &verifRecorder{}
	ch := NewCloudHandler(cache, rec)
	ctx, cancel := context.WithCancel(context.Background())
	defer cancel()
	go ch.Run(ctx)
	verifSettle()

	var wantTotal [2]int64
	var wantEvents [2]int
	dispatch := func(k int) {
		s := verifSources[src[k]]
		if kind[k] == 2 {
			mm := gostatsd.NewMetricMap(false)
			mm.Counters["c"] = map[string]gostatsd.Counter{
				"s:" + string(verifSources[0]): {Value: val[k], Source: verifSources[0], Timestamp: 1},
				"s:" + string(verifSources[1]): {Value: val[k] + 10, Source: verifSources[1], Timestamp: 1},
			}
			ch.DispatchMetricMap(ctx, mm)
			wantTotal[0] += val[k]
			wantTotal[1] += val[k] + 10
			verifReach("mixed-batch")
		} else if kind[k] == 0 {
			mm := gostatsd.NewMetricMap(false)
			mm.Counters["c"] = map[string]gostatsd.Counter{"": {Value: val[k], Source: s, Timestamp: 1}}
			ch.DispatchMetricMap(ctx, mm)
			wantTotal[src[k]] += val[k]
		} else {
			ch.DispatchEvent(ctx, &gostatsd.Event{Title: "e", Source: s})
			wantEvents[src[k]]++
		}
		verifSettle()
	}
	first := nItems
	if late && nItems > 1 {
		first = nItems - 1
	}
	for k := 0; k < first; k++ {
		dispatch(k)
	}
	// what has left the stage so far: exactly the items of known sources
	left := func(i int) (int64, int) {
		var t int64
		for _, mm := range rec.maps {
			for _, byTags := range mm.Counters {
				for _, c := range byTags {
					if c.Source == verifSources[i] || c.Source == cache.inst[i].ID {
						t += c.Value
					}
				}
			}
		}
		n := 0
		for _, e := range rec.events {
			if e.Source == verifSources[i] || e.Source == cache.inst[i].ID {
				n++
			}
		}
		return t, n
	}
	dispatched := func(i, upTo int) (int64, int) {
		var t int64
		n := 0
		for k := 0; k < upTo; k++ {
			switch {
			case kind[k] == 2:
				t += val[k] + int64(10*i)
			case src[k] == i && kind[k] == 0:
				t += val[k]
			case src[k] == i:
				n++
			}
		}
		return t, n
	}
	needs := [2]bool{}
	for i := 0; i < 2; i++ {
		t, n := dispatched(i, first)
		lt, ln := left(i)
		if cache.content[i] == 0 {
			verifAssert(lt == 0 && ln == 0, "nothing of an unknown source leaves the stage before its lookup completes")
			needs[i] = t != 0 || n != 0
		} else {
			verifAssert(lt == t && ln == n, "items of a known source leave the stage at once, exactly once")
		}
	}
	// the lookups requested: exactly one per unknown source that has items, no duplicates
	nLook := 0
	for i := 0; i < 2; i++ {
		if needs[i] {
			nLook++
		}
	}
	asked := [2]int{}
	for k := 0; k < nLook; k++ {
		ip := <-cache.ipSink
		asked[verifSrcIndex(ip)]++
		verifSettle()
	}
	noMore := func(msg string) {
		timeout := time.After(time.Second)
		go func() {
			verifSettle()
			verifAdvanceTime()
		}()
		select {
		case <-cache.ipSink:
			verifAssert(false, msg)
		case <-timeout:
		}
	}
	noMore("a lookup is requested for a source that is known, has nothing waiting or already has one outstanding")
	for i := 0; i < 2; i++ {
		want := 0
		if needs[i] {
			want = 1
		}
		verifAssert(asked[i] == want, "exactly one lookup is requested per unknown source with items waiting")
	}
	// gauges while waiting
	mh, eh, ei := uint64(0), uint64(0), uint64(0)
	for i := 0; i < 2; i++ {
		if cache.content[i] == 0 {
			t, n := dispatched(i, first)
			if t != 0 {
				mh++
			}
			if n != 0 {
				eh++
				ei += uint64(n)
			}
		}
	}
	verifAssert(ch.statsMetricHostsQueued == mh && ch.statsEventHostsQueued == eh && ch.statsEventItemsQueued == ei, "the numbers of hosts and items waiting equal the true numbers")
	if first < nItems {
		// one more item while lookups are outstanding: no second lookup for a source already asked about
		dispatch(nItems - 1)
		for i := 0; i < 2; i++ {
			if kind[nItems-1] != 2 && src[nItems-1] != i {
				continue
			}
			if cache.content[i] == 0 && !needs[i] {
				ip := <-cache.ipSink
				verifAssert(cache.content[verifSrcIndex(ip)] == 0 && !needs[verifSrcIndex(ip)], "a lookup is requested for a new unknown source only")
				needs[verifSrcIndex(ip)] = true
				asked[verifSrcIndex(ip)]++
				verifSettle()
			}
		}
		noMore("a second lookup is requested for a source whose lookup is outstanding")
		verifReach("late-item")
	}
	// the answers, in a symbolic order, each with a symbolic outcome
	order := []int{answerFirst, 1 - answerFirst}
	for _, i := range order {
		if !needs[i] {
			continue
		}
		var in *gostatsd.Instance
		if answerOK[i] {
			in = cache.inst[i]
		}
		cache.infoSource <- gostatsd.InstanceInfo{IP: verifSources[i], Instance: in}
		verifSettle()
		t, n := dispatched(i, nItems)
		lt, ln := left(i)
		verifAssert(lt == t && ln == n, "after the lookup completes every waiting item of that source leaves exactly once")
		verifReach("answered")
	}
	noMore("a lookup is requested after everything was answered")
	// tags and sources of everything that left
	for i := 0; i < 2; i++ {
		enriched := cache.content[i] == 2 || (cache.content[i] == 0 && answerOK[i])
		for _, mm := range rec.maps {
			for _, byTags := range mm.Counters {
				for _, c := range byTags {
					if c.Source != verifSources[i] && c.Source != cache.inst[i].ID {
						continue
					}
					if enriched {
						verifAssert(c.Source == cache.inst[i].ID && len(c.Tags) == 1 && c.Tags[0] == cache.inst[i].Tags[0], "a datapoint of a resolved source carries the instance id and its tags")
					} else {
						verifAssert(c.Source == verifSources[i] && len(c.Tags) == 0, "a datapoint of an unresolved source is unchanged")
					}
				}
			}
		}
		for _, e := range rec.events {
			if e.Source != verifSources[i] && e.Source != cache.inst[i].ID {
				continue
			}
			if enriched {
				verifAssert(e.Source == cache.inst[i].ID && len(e.Tags) == 1 && e.Tags[0] == cache.inst[i].Tags[0], "an event of a resolved source carries the instance id and its tags")
			} else {
				verifAssert(e.Source == verifSources[i] && len(e.Tags) == 0, "an event of an unresolved source is unchanged")
			}
		}
		t, n := dispatched(i, nItems)
		lt, ln := left(i)
		verifAssert(lt == t && ln == n, "every item entering the stage has left it exactly once at the end")
	}
	verifAssert(ch.statsMetricHostsQueued == 0 && ch.statsEventHostsQueued == 0 && ch.statsEventItemsQueued == 0, "nothing is reported waiting at the end")
	verifAssert(verifWaitGroupCount(&ch.wg) == 0, "no event is still counted as parked")
	verifReach("loop-done")
}

func VerifC11_Loop2() { verifC11Loop(2) }
func VerifC11_Loop3() { verifC11Loop(3) }
