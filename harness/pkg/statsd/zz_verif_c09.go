package statsd

import (
	"time"

	"github.com/atlassian/gostatsd"
)

// C09: series persist until their type's expiry interval elapses, then disappear.

type verifSeen struct {
	counter, gauge, timer, set bool
	cVal                       int64
	cRate                      float64
	gVal                       float64
	tCount                     int
	tPct                       int
	sLen                       int
}

func verifObserve(a *MetricAggregator) verifSeen {
	var s verifSeen
	a.Process(func(mm *gostatsd.MetricMap) {
		if c, ok := mm.Counters["k"][""]; ok {
			s.counter, s.cVal, s.cRate = true, c.Value, c.PerSecond
		}
		if g, ok := mm.Gauges["k"][""]; ok {
			s.gauge, s.gVal = true, g.Value
		}
		if t, ok := mm.Timers["k"][""]; ok {
			s.timer, s.tCount, s.tPct = true, t.Count, len(t.Percentiles)
		}
		if st, ok := mm.Sets["k"][""]; ok {
			s.set, s.sLen = true, len(st.Values)
		}
	})
	return s
}

func verifExpiredSpec(expiry int64, now, ts int64) bool {
	return expiry != 0 && now-ts > expiry
}

const verifTmax = int64(1) << 62

// VerifC09_Step: arbitrary aggregate (one series per type, presence symbolic), arbitrary
// per-type expiry (any int64), series timestamps ts <= now < 2^62; one real flush sequence.
func VerifC09_Step() {
	ec, eg, es, et := nondetInt64(), nondetInt64(), nondetInt64(), nondetInt64()
	a := NewMetricAggregator([]float64{90}, time.Duration(ec), time.Duration(eg), time.Duration(es), time.Duration(et), gostatsd.TimerSubtypes{}, 0)
	now := nondetInt64In(0, verifTmax-1)
	a.now = func() time.Time { return time.Unix(0, now) }
	hasC, hasG, hasT, hasS := nondetBool(), nondetBool(), nondetBool(), nondetBool()
	tsC, tsG, tsT, tsS := nondetInt64In(0, verifTmax-1), nondetInt64In(0, verifTmax-1), nondetInt64In(0, verifTmax-1), nondetInt64In(0, verifTmax-1)
	verifAssume(tsC <= now && tsG <= now && tsT <= now && tsS <= now)
	cv := nondetInt64In(-(1 << 50), 1<<50)
	gv := nondetFloat64()
	pendingTimer := nondetBool()
	pendingSet := nondetBool()
	tags := gostatsd.Tags{"x:y"}
	if hasC {
		a.metricMap.Counters["k"] = map[string]gostatsd.Counter{"": {Value: cv, Timestamp: gostatsd.Nanotime(tsC), Source: "src", Tags: tags}}
	}
	if hasG {
		a.metricMap.Gauges["k"] = map[string]gostatsd.Gauge{"": {Value: gv, Timestamp: gostatsd.Nanotime(tsG), Source: "src", Tags: tags}}
	}
	if hasT {
		t := gostatsd.Timer{Timestamp: gostatsd.Nanotime(tsT), Source: "src", Tags: tags, Values: []float64{}}
		if pendingTimer {
			t.Values = []float64{nondetFloat64(), nondetFloat64()}
			t.SampledCount = 2
		}
		a.metricMap.Timers["k"] = map[string]gostatsd.Timer{"": t}
	}
	if hasS {
		s := gostatsd.Set{Timestamp: gostatsd.Nanotime(tsS), Source: "src", Tags: tags, Values: map[string]struct{}{}}
		if pendingSet {
			s.Values["m"] = struct{}{}
		}
		a.metricMap.Sets["k"] = map[string]gostatsd.Set{"": s}
	}
	interval := nondetInt64In(1, int64(time.Hour))
	a.Flush(time.Duration(interval))
	seen := verifObserve(a)
	a.Reset()

	// reported in this flush
	verifAssert(seen.counter == hasC && seen.gauge == hasG && seen.timer == hasT && seen.set == hasS, "a held series is reported in the flush (and nothing else)")
	if hasC {
		verifAssert(seen.cVal == cv, "counter reported with its pending count")
		if cv == 0 {
			verifAssert(seen.cRate == 0, "idle counter reported with rate 0")
		}
	}
	if hasG {
		verifAssert(seen.gVal == gv, "gauge reported with its last value")
	}
	if hasT {
		if pendingTimer {
			verifAssert(seen.tCount == 2, "timer reported with its count")
		} else {
			verifAssert(seen.tCount == 0 && seen.tPct == 0, "idle timer reported with count 0 and no percentiles")
		}
	}
	if hasS {
		if pendingSet {
			verifAssert(seen.sLen == 1, "set reported with its members")
		} else {
			verifAssert(seen.sLen == 0, "idle set reported empty")
		}
	}
	// survival: each type by its own interval
	c, okC := a.metricMap.Counters["k"][""]
	g, okG := a.metricMap.Gauges["k"][""]
	t, okT := a.metricMap.Timers["k"][""]
	s, okS := a.metricMap.Sets["k"][""]
	verifAssert(okC == (hasC && !verifExpiredSpec(ec, now, tsC)), "counter survives iff expiry==0 or now-ts <= counter expiry")
	verifAssert(okG == (hasG && !verifExpiredSpec(eg, now, tsG)), "gauge survives iff expiry==0 or now-ts <= gauge expiry")
	verifAssert(okT == (hasT && !verifExpiredSpec(et, now, tsT)), "timer survives iff expiry==0 or now-ts <= timer expiry")
	verifAssert(okS == (hasS && !verifExpiredSpec(es, now, tsS)), "set survives iff expiry==0 or now-ts <= set expiry")
	if okC {
		verifReach("counter-survives")
		verifAssert(c.Value == 0 && int64(c.Timestamp) == tsC && c.Source == "src" && len(c.Tags) == 1, "surviving counter is zeroed and keeps timestamp, source, tags")
	}
	if okG {
		verifAssert(g.Value == gv && int64(g.Timestamp) == tsG && g.Source == "src" && len(g.Tags) == 1, "surviving gauge keeps value, timestamp, source, tags")
	}
	if okT {
		verifAssert(len(t.Values) == 0 && int64(t.Timestamp) == tsT && t.Source == "src" && len(t.Tags) == 1, "surviving timer is emptied and keeps timestamp, source, tags")
	}
	if okS {
		verifAssert(len(s.Values) == 0 && int64(s.Timestamp) == tsS && s.Source == "src" && len(s.Tags) == 1, "surviving set is emptied and keeps timestamp, source, tags")
	}
	if hasC && !okC {
		verifReach("counter-expired")
	}
	if !okC {
		_, nameLeft := a.metricMap.Counters["k"]
		verifAssert(!nameLeft, "expired series leaves no empty name entry")
	}
}

// VerifC09_Hist: from the real constructor: one datapoint of a symbolic type at time T, then
// three flushes at non-decreasing times; the series must be reported exactly until (and
// including) the first flush more than its type's expiry after T.
func VerifC09_Hist() { verifC09Hist(3, false) }

// longer histories, and histories in which a second datapoint arrives between two flushes
// (the expiry then counts from that one; an expired series is created again)
func VerifC09_Hist5()      { verifC09Hist(5, false) }
func VerifC09_HistResend() { verifC09Hist(4, true) }

func verifC09Hist(flushes int, resend bool) {
	typ := nondetIntIn(0, 3)
	e := nondetInt64()
	other := nondetInt64()
	var ec, eg, es, et = other, other, other, other
	switch typ {
	case 0:
		ec = e
	case 1:
		eg = e
	case 2:
		et = e
	default:
		es = e
	}
	a := NewMetricAggregator(nil, time.Duration(ec), time.Duration(eg), time.Duration(es), time.Duration(et), gostatsd.TimerSubtypes{}, 0)
	var now int64
	a.now = func() time.Time { return time.Unix(0, now) }
	T := nondetInt64In(0, verifTmax-1)
	mm := gostatsd.NewMetricMap(false)
	switch typ {
	case 0:
		mm.Counters["k"] = map[string]gostatsd.Counter{"": {Value: 5, Timestamp: gostatsd.Nanotime(T)}}
	case 1:
		mm.Gauges["k"] = map[string]gostatsd.Gauge{"": {Value: 5, Timestamp: gostatsd.Nanotime(T)}}
	case 2:
		mm.Timers["k"] = map[string]gostatsd.Timer{"": {Values: []float64{5}, SampledCount: 1, Timestamp: gostatsd.Nanotime(T)}}
	default:
		mm.Sets["k"] = map[string]gostatsd.Set{"": {Values: map[string]struct{}{"m": {}}, Timestamp: gostatsd.Nanotime(T)}}
	}
	mk := func(ts int64) *gostatsd.MetricMap {
		m2 := gostatsd.NewMetricMap(false)
		switch typ {
		case 0:
			m2.Counters["k"] = map[string]gostatsd.Counter{"": {Value: 5, Timestamp: gostatsd.Nanotime(ts)}}
		case 1:
			m2.Gauges["k"] = map[string]gostatsd.Gauge{"": {Value: 5, Timestamp: gostatsd.Nanotime(ts)}}
		case 2:
			m2.Timers["k"] = map[string]gostatsd.Timer{"": {Values: []float64{5}, SampledCount: 1, Timestamp: gostatsd.Nanotime(ts)}}
		default:
			m2.Sets["k"] = map[string]gostatsd.Set{"": {Values: map[string]struct{}{"m": {}}, Timestamp: gostatsd.Nanotime(ts)}}
		}
		return m2
	}
	a.ReceiveMap(mm)
	prev := T
	alive := true // spec: not yet expired by an earlier flush
	resendAt := -1
	if resend {
		resendAt = nondetIntIn(1, flushes-1)
	}
	fresh := false // a datapoint arrived since the previous flush
	for i := 0; i < flushes; i++ {
		if i == resendAt {
			T2 := nondetInt64In(0, verifTmax-1)
			verifAssume(T2 >= prev)
			prev, T = T2, T2
			a.ReceiveMap(mk(T2))
			alive, fresh = true, true
			verifReach("resent")
		}
		ti := nondetInt64In(0, verifTmax-1)
		verifAssume(ti >= prev)
		prev = ti
		now = ti
		a.Flush(10 * time.Second)
		seen := verifObserve(a)
		a.Reset()
		got := false
		switch typ {
		case 0:
			got = seen.counter
			if got && i > 0 && !fresh {
				verifAssert(seen.cVal == 0 && seen.cRate == 0, "history: idle counter reported as 0")
			}
		case 1:
			got = seen.gauge
			if got {
				verifAssert(seen.gVal == 5, "history: gauge keeps last value")
			}
		case 2:
			got = seen.timer
			if got && i > 0 && !fresh {
				verifAssert(seen.tCount == 0, "history: idle timer count 0")
			}
		default:
			got = seen.set
			if got && i > 0 && !fresh {
				verifAssert(seen.sLen == 0, "history: idle set empty")
			}
		}
		fresh = false
		verifAssert(got == alive, "history: series reported exactly until the first flush more than the expiry after its last datapoint")
		if alive && verifExpiredSpec(e, ti, T) {
			alive = false
			verifReach("expired-in-history")
		}
	}
	if alive {
		verifReach("alive-after-3")
	}
}

func VerifC09_Twin() {
	VerifC09_Hist()
	verifAssert(false, "twin-false")
}

// larger bounds for the thorough tier
func VerifC09_Hist8()       { verifC09Hist(8, false) }
func VerifC09_HistResend6() { verifC09Hist(6, true) }

// VerifC09_Siblings: two series of ONE name (tag keys "" and "t:1") of a symbolic type with
// independent symbolic timestamps, any expiry: after Flush + Reset each sibling is kept or
// removed by its OWN timestamp - one series expiring must not take the other with it, nor
// keep it alive.
func VerifC09_Siblings() {
	typ := nondetIntIn(0, 3)
	e := nondetInt64()
	a := NewMetricAggregator(nil, time.Duration(e), time.Duration(e), time.Duration(e), time.Duration(e), gostatsd.TimerSubtypes{}, 0)
	now := nondetInt64In(0, verifTmax-1)
	a.now = func() time.Time { return time.Unix(0, now) }
	var ts [2]int64
	keys := []string{"", "t:1"}
	for i := range ts {
		ts[i] = nondetInt64In(0, verifTmax-1)
		verifAssume(ts[i] <= now)
	}
	switch typ {
	case 0:
		a.metricMap.Counters["k"] = map[string]gostatsd.Counter{}
	case 1:
		a.metricMap.Gauges["k"] = map[string]gostatsd.Gauge{}
	case 2:
		a.metricMap.Timers["k"] = map[string]gostatsd.Timer{}
	default:
		a.metricMap.Sets["k"] = map[string]gostatsd.Set{}
	}
	for i, k := range keys {
		t := gostatsd.Nanotime(ts[i])
		switch typ {
		case 0:
			a.metricMap.Counters["k"][k] = gostatsd.Counter{Value: 1, Timestamp: t}
		case 1:
			a.metricMap.Gauges["k"][k] = gostatsd.Gauge{Value: 1, Timestamp: t}
		case 2:
			a.metricMap.Timers["k"][k] = gostatsd.Timer{Values: []float64{}, Timestamp: t}
		default:
			a.metricMap.Sets["k"][k] = gostatsd.Set{Values: map[string]struct{}{}, Timestamp: t}
		}
	}
	a.Flush(10 * time.Second)
	a.Reset()
	for i, k := range keys {
		present := false
		switch typ {
		case 0:
			_, present = a.metricMap.Counters["k"][k]
		case 1:
			_, present = a.metricMap.Gauges["k"][k]
		case 2:
			_, present = a.metricMap.Timers["k"][k]
		default:
			_, present = a.metricMap.Sets["k"][k]
		}
		verifAssert(present == !verifExpiredSpec(e, now, ts[i]), "a series is kept or removed by its own last datapoint, whatever happens to another tag set of the same name")
	}
	verifReach("siblings")
}
