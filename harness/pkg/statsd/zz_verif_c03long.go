package statsd

import (
	"context"

	"github.com/atlassian/gostatsd/internal/lexer"
	"github.com/atlassian/gostatsd/internal/pool"
)

// C03, long lines: the whole-line exploration of the lexer stops at 7 bytes, so code that only
// runs for LONG rejected lines (truncation for logging, size classes, buffer growth) is out of
// its reach. Here a datagram "a:1|c \n <L bytes> \n b:2|c" goes through the real
// DatagramParser.handleDatagram; the L bytes of the middle line are symbolic within one byte
// class chosen symbolically (lower-case letters; bytes >= 0x80, i.e. UTF-8 continuation and
// lead bytes; bytes 0x80..0xBF only), which keeps the lexer on one path per class while leaving
// every byte free inside the class. The line has no name separator, so it must be counted as ONE
// bad line, the neighbours must be parsed, and nothing may panic in the bad-line path
// (logBadLineRateLimited up to the rate limiter's decision, which is "do not log").
func verifC03LongBad(L int) {
	cls := nondetIntIn(0, 2)
	mid := nondetBytes(L)
	for i := range mid {
		switch cls {
		case 0:
			verifAssume(mid[i] >= 'a' && mid[i] <= 'z')
		case 1:
			verifAssume(mid[i] >= 0x80)
		default:
			verifAssume(mid[i] >= 0x80 && mid[i] <= 0xBF)
		}
	}
	msg := append([]byte("a:1|c\n"), mid...)
	msg = append(msg, []byte("\nb:2|c")...)
	rec := &verifRecorder{}
	mp := pool.NewMetricPool(0)
	dp := verifNewParser("", false, rec, mp)
	l := &lexer.Lexer{MetricPool: mp}
	ms, ne, nb := dp.handleDatagram(context.Background(), l, 5, "9.9.9.9", msg)
	verifAssert(nb == 1, "long rejected line: exactly one bad line")
	verifAssert(ne == 0, "long rejected line: no event")
	verifAssert(len(ms) == 2, "long rejected line: both neighbours parsed")
	if len(ms) == 2 {
		verifAssert(ms[0].Name == "a" && ms[0].Value == 1 && ms[1].Name == "b" && ms[1].Value == 2, "long rejected line: neighbours intact")
	}
	verifReach("long-bad")
}

func VerifC03_LongBad_255()  { verifC03LongBad(255) }
func VerifC03_LongBad_256()  { verifC03LongBad(256) }
func VerifC03_LongBad_257()  { verifC03LongBad(257) }
func VerifC03_LongBad_300()  { verifC03LongBad(300) }
func VerifC03_LongBad_1500() { verifC03LongBad(1500) }
