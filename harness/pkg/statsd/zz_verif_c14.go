package statsd

import (
	"bytes"
	"context"
	"errors"
	"io"
	"net/http"
	"time"

	"github.com/sirupsen/logrus"

	"github.com/atlassian/gostatsd"
	"github.com/atlassian/gostatsd/pkg/web"
)

// C14 / C15 / C19 (forwarder mode): the real forwarder (postMetrics / DispatchEvent -> post ->
// constructPost) talks through a harness http.RoundTripper to the real ingestion handlers of
// pkg/web (MetricHandler / EventHandler -> readBody -> translateFromProtobufV2), which dispatch
// into a recorder. Natively the very same harness is an integration test with the real
// protobuf, compression and net/http; in the engine those leaves are contract stubs.

type verifRespWriter struct {
	code int
	hdr  http.Header
}

func (w *verifRespWriter) Header() http.Header         { return w.hdr }
func (w *verifRespWriter) Write(b []byte) (int, error) { return len(b), nil }
func (w *verifRespWriter) WriteHeader(code int)        { w.code = code }

type verifUpstream struct {
	srv         *web.VerifRawHandler
	rec         *verifRecorder
	attempts    int
	delivered   int // attempts that reached the server and were answered 2xx
	afterOK     bool
	maxAttempts int
	faults      bool // inject symbolic transport faults
	lastStatus  int
	encodings   []string
	dynHeader   string
}

func (u *verifUpstream) RoundTrip(req *http.Request) (*http.Response, error) {
	u.attempts++
	if u.delivered > 0 {
		u.afterOK = true // an attempt after a success
	}
	// unwinding bound of the retry loop
	verifAssume(u.attempts <= u.maxAttempts)
	outcome := 0
	if u.faults {
		outcome = nondetIntIn(0, 2)
	}
	switch outcome {
	case 1:
		return nil, errors.New("connection refused")
	case 2:
		// an upstream that answers 503 has read the request
		_, _ = io.Copy(io.Discard, req.Body)
		u.lastStatus = 503
		return &http.Response{StatusCode: 503, Body: io.NopCloser(bytes.NewReader(nil)), Header: http.Header{}}, nil
	}
	u.encodings = append(u.encodings, req.Header.Get("Content-Encoding"))
	u.dynHeader = req.Header.Get("Region")
	w := &verifRespWriter{hdr: http.Header{}}
	if req.URL.Path == "/v2/event" {
		u.srv.EventHandler(w, req)
	} else {
		u.srv.MetricHandler(w, req)
	}
	u.lastStatus = w.code
	if w.code >= 200 && w.code < 300 {
		u.delivered++
	}
	return &http.Response{StatusCode: w.code, Body: io.NopCloser(bytes.NewReader(nil)), Header: http.Header{}}, nil
}

func verifNewForwarder(faults bool, maxAttempts int, compress bool, ct web.CompressionType, elapsed time.Duration) (*HttpForwarderHandlerV2, *verifUpstream) {
	rec := &verifRecorder{}
	up := &verifUpstream{rec: rec, srv: web.VerifNewRawHandler(rec), faults: faults, maxAttempts: maxAttempts}
	hfh := &HttpForwarderHandlerV2{
		logger:                logrus.StandardLogger(),
		apiEndpoint:           "http://upstream",
		maxRequestElapsedTime: elapsed,
		client:                &http.Client{Transport: up},
		compress:              compress,
		compressionType:       ct,
		compressionLevel:      1,
		headers:               map[string]string{"Content-Type": "application/x-protobuf"},
		metricsSem:            make(chan struct{}, 1),
		metricsMergingSem:     make(chan struct{}, 1),
		done:                  make(chan struct{}),
	}
	return hfh, up
}

func verifAsciiString(n int) string {
	b := nondetBytes(n)
	for i := range b {
		verifAssume(b[i] < 0x80) // valid UTF-8 (the property's precondition for C14)
	}
	return string(b)
}

// verifSymbolicMap: one series per metric type (presence symbolic) with symbolic payloads.
func verifSymbolicMap() *gostatsd.MetricMap { return verifSymbolicMapN(1) }

func verifSymbolicMapN(n int) *gostatsd.MetricMap {
	mm := gostatsd.NewMetricMap(false)
	name := verifAsciiString(n)
	tag := verifAsciiString(n)
	src := gostatsd.Source(verifAsciiString(n))
	var tags gostatsd.Tags
	if nondetBool() {
		tags = gostatsd.Tags{tag}
	}
	if nondetBool() {
		mm.Counters[name] = map[string]gostatsd.Counter{"k": {Value: nondetInt64(), Tags: tags, Source: src, Timestamp: 9}}
	}
	if nondetBool() {
		mm.Gauges[name] = map[string]gostatsd.Gauge{"k": {Value: nondetFloat64(), Tags: tags, Source: src, Timestamp: 9}}
	}
	if nondetBool() {
		n := nondetIntIn(0, 2)
		var vals []float64
		for i := 0; i < 2; i++ {
			if i < n {
				vals = append(vals, nondetFloat64())
			}
		}
		mm.Timers[name] = map[string]gostatsd.Timer{"k": {Values: vals, SampledCount: nondetFloat64(), Tags: tags, Source: src, Timestamp: 9}}
	}
	if nondetBool() {
		members := map[string]struct{}{}
		if nondetBool() {
			members[verifAsciiString(1)] = struct{}{}
		}
		if nondetBool() {
			members["m2"] = struct{}{}
		}
		mm.Sets[name] = map[string]gostatsd.Set{"k": {Values: members, Tags: tags, Source: src, Timestamp: 9}}
	}
	return mm
}

func verifSameF(a, b float64) bool { return a == b || (a != a && b != b) }

func verifSameTags(a, b gostatsd.Tags) bool {
	if len(a) != len(b) {
		return false
	}
	for i := range a {
		if a[i] != b[i] {
			return false
		}
	}
	return true
}

// verifCheckDecoded: what the ingesting server dispatched equals what the forwarder was given
// (timestamps are deliberately not carried).
func verifCheckDecoded(in, out *gostatsd.MetricMap) {
	verifAssert(len(out.Counters) == len(in.Counters) && len(out.Gauges) == len(in.Gauges) && len(out.Timers) == len(in.Timers) && len(out.Sets) == len(in.Sets), "decoded map has the same series names")
	for name, byTags := range in.Counters {
		for k, c := range byTags {
			d, ok := out.Counters[name][k]
			verifAssert(ok, "counter series key preserved")
			verifAssert(d.Value == c.Value && d.Source == c.Source && verifSameTags(d.Tags, c.Tags), "counter value, source, tags preserved")
			verifAssert(len(out.Counters[name]) == len(byTags), "no extra counter series")
		}
	}
	for name, byTags := range in.Gauges {
		for k, g := range byTags {
			d, ok := out.Gauges[name][k]
			verifAssert(ok, "gauge series key preserved")
			verifAssert(verifSameF(d.Value, g.Value) && d.Source == g.Source && verifSameTags(d.Tags, g.Tags), "gauge value, source, tags preserved")
		}
	}
	for name, byTags := range in.Timers {
		for k, t := range byTags {
			d, ok := out.Timers[name][k]
			verifAssert(ok, "timer series key preserved")
			verifAssert(len(d.Values) == len(t.Values), "timer values preserved (count)")
			for i := range t.Values {
				if i < len(d.Values) {
					verifAssert(verifSameF(d.Values[i], t.Values[i]), "timer values preserved")
				}
			}
			verifAssert(verifSameF(d.SampledCount, t.SampledCount) && d.Source == t.Source && verifSameTags(d.Tags, t.Tags), "timer sampled count, source, tags preserved")
		}
	}
	for name, byTags := range in.Sets {
		for k, s := range byTags {
			d, ok := out.Sets[name][k]
			verifAssert(ok, "set series key preserved")
			verifAssert(len(d.Values) == len(s.Values), "set members preserved (count)")
			for m := range s.Values {
				_, has := d.Values[m]
				verifAssert(has, "set members preserved")
			}
			verifAssert(d.Source == s.Source && verifSameTags(d.Tags, s.Tags), "set source, tags preserved")
		}
	}
}

func verifCompression() (bool, web.CompressionType) {
	switch nondetIntIn(0, 2) {
	case 0:
		return false, web.Zlib
	case 1:
		return true, web.Zlib
	default:
		return true, web.Lz4
	}
}

// VerifC14_Metrics: forwarder -> wire -> ingesting server, no faults.
func VerifC14_Metrics() { verifC14Metrics(1) }

// names, tags and sources of three symbolic bytes (thorough tier)
func VerifC14_Metrics3() { verifC14Metrics(3) }

func verifC14Metrics(n int) {
	compress, ct := verifCompression()
	hfh, up := verifNewForwarder(false, 1, compress, ct, 30*time.Second)
	mm := verifSymbolicMapN(n)
	hfh.postMetrics(context.Background(), mm, "", 7)
	verifAssert(up.attempts == 1 && up.lastStatus == 202, "the request is accepted with 202")
	verifAssert(len(up.rec.maps) == 1, "the ingesting server dispatches exactly one map")
	if len(up.rec.maps) == 1 {
		verifCheckDecoded(mm, up.rec.maps[0])
		verifReach("decoded")
	}
	want := "identity"
	if compress && ct == web.Zlib {
		want = web.ZlibContentEncoding
	} else if compress {
		want = web.Lz4ContentEncoding
	}
	verifAssert(len(up.encodings) == 1 && up.encodings[0] == want, "Content-Encoding header names the compression used")
}

// VerifC14_TwoSeries: two series of ONE name (different tag sets / sources) for every metric
// type, symbolic values and set members: each series keeps its own values, members, tags and
// source through the wire.
func VerifC14_TwoSeries() {
	compress, ct := verifCompression()
	hfh, up := verifNewForwarder(false, 1, compress, ct, 30*time.Second)
	mm := gostatsd.NewMetricMap(false)
	ta, tb := gostatsd.Tags{"a:" + verifAsciiString(1)}, gostatsd.Tags{"b:2", "c:3"}
	sa, sb := gostatsd.Source("h1"), gostatsd.Source(verifAsciiString(1))
	mm.Counters["n"] = map[string]gostatsd.Counter{"ka": {Value: nondetInt64(), Tags: ta, Source: sa}, "kb": {Value: nondetInt64(), Tags: tb, Source: sb}}
	mm.Gauges["n"] = map[string]gostatsd.Gauge{"ka": {Value: nondetFloat64(), Tags: ta, Source: sa}, "kb": {Value: nondetFloat64(), Tags: tb, Source: sb}}
	mm.Timers["n"] = map[string]gostatsd.Timer{
		"ka": {Values: []float64{nondetFloat64(), nondetFloat64()}, SampledCount: 2, Tags: ta, Source: sa},
		"kb": {Values: []float64{nondetFloat64()}, SampledCount: nondetFloat64(), Tags: tb, Source: sb}}
	m1, m2 := verifAsciiString(1), verifAsciiString(1)
	mm.Sets["n"] = map[string]gostatsd.Set{
		"ka": {Values: map[string]struct{}{m1: {}, "x2": {}}, Tags: ta, Source: sa},
		"kb": {Values: map[string]struct{}{m2: {}, "y2": {}}, Tags: tb, Source: sb}}
	hfh.postMetrics(context.Background(), mm, "", 7)
	verifAssert(up.attempts == 1 && up.lastStatus == 202, "the request is accepted with 202")
	verifAssert(len(up.rec.maps) == 1, "the ingesting server dispatches exactly one map")
	if len(up.rec.maps) == 1 {
		out := up.rec.maps[0]
		verifAssert(len(out.Counters["n"]) == 2 && len(out.Gauges["n"]) == 2 && len(out.Timers["n"]) == 2 && len(out.Sets["n"]) == 2, "both series of a name arrive")
		verifCheckDecoded(mm, out)
		verifReach("decoded")
	}
}

// VerifC14_Retried: the same round trip when attempts may fail first (symbolic outcome per
// attempt: delivered, connection error, 503; at most three attempts): whenever the batch is
// delivered, what the ingesting server dispatches equals what the forwarder was given - a
// retry carries the data, not an empty or partial body.
func VerifC14_Retried() {
	compress, ct := verifCompression()
	hfh, up := verifNewForwarder(true, 3, compress, ct, 30*time.Second)
	// (a small map: one series of each type with symbolic payloads; the shapes are VerifC14_Metrics' subject)
	mm := gostatsd.NewMetricMap(false)
	mm.Counters["c"] = map[string]gostatsd.Counter{"k": {Value: nondetInt64(), Source: "h"}}
	mm.Gauges["g"] = map[string]gostatsd.Gauge{"k": {Value: nondetFloat64(), Tags: gostatsd.Tags{"a:b"}}}
	mm.Timers["t"] = map[string]gostatsd.Timer{"k": {Values: []float64{nondetFloat64()}, SampledCount: 1}}
	mm.Sets["s"] = map[string]gostatsd.Set{"k": {Values: map[string]struct{}{verifAsciiString(1): {}}}}
	hfh.postMetrics(context.Background(), mm, "", 7)
	if up.delivered > 0 {
		verifAssert(up.delivered == 1 && len(up.rec.maps) == 1, "a delivered batch is dispatched by the ingesting server exactly once")
		if len(up.rec.maps) == 1 {
			verifCheckDecoded(mm, up.rec.maps[0])
		}
		if up.attempts > 1 {
			verifReach("delivered-on-retry")
		}
	}
}

// VerifC14_Event: an event through the forwarder and the ingesting server.
func VerifC14_Event() {
	compress, ct := verifCompression()
	hfh, up := verifNewForwarder(false, 1, compress, ct, 30*time.Second)
	e := &gostatsd.Event{
		Title: verifAsciiString(1), Text: verifAsciiString(2), DateHappened: nondetInt64(),
		AggregationKey: verifAsciiString(1), SourceTypeName: verifAsciiString(1), Source: gostatsd.Source(verifAsciiString(1)),
	}
	if nondetBool() {
		e.Tags = gostatsd.Tags{verifAsciiString(1), "b:c"}
	}
	if nondetBool() {
		e.Priority = gostatsd.PriLow
	}
	e.AlertType = gostatsd.AlertType(nondetIntIn(0, 3))
	hfh.DispatchEvent(context.Background(), e)
	hfh.WaitForEvents()
	verifAssert(up.attempts == 1 && up.lastStatus == 202, "the event request is accepted with 202")
	verifAssert(len(up.rec.events) == 1, "the ingesting server dispatches exactly one event")
	if len(up.rec.events) == 1 {
		d := up.rec.events[0]
		verifAssert(d.Title == e.Title && d.Text == e.Text && d.DateHappened == e.DateHappened, "event title, text, time preserved")
		verifAssert(d.AggregationKey == e.AggregationKey && d.SourceTypeName == e.SourceTypeName && d.Source == e.Source, "event key, source type, source preserved")
		verifAssert(d.Priority == e.Priority && d.AlertType == e.AlertType, "event priority and alert type preserved")
		verifAssert(verifSameTags(d.Tags, e.Tags), "event tags preserved")
		verifReach("event-decoded")
	}
}

// VerifC14_BadBody: unknown encodings and undecodable bodies are answered 4xx and dispatch nothing.
func VerifC14_BadBody() {
	rec := &verifRecorder{}
	srv := web.VerifNewRawHandler(rec)
	var enc string
	switch nondetIntIn(0, 4) {
	case 0:
		enc = nondetString(2) // an unknown encoding
	case 1:
		enc = ""
	case 2:
		enc = "identity"
	case 3:
		enc = web.ZlibContentEncoding
	default:
		enc = web.Lz4ContentEncoding
	}
	body := []byte("garbage!")
	req, _ := http.NewRequest("POST", "http://x/v2/raw", bytes.NewReader(body))
	req.Header.Set("Content-Encoding", enc)
	w := &verifRespWriter{hdr: http.Header{}}
	if nondetBool() {
		srv.MetricHandler(w, req)
	} else {
		srv.EventHandler(w, req)
	}
	verifAssert(w.code >= 400 && w.code < 600, "an unreadable body is answered with a 4xx/5xx status")
	verifAssert(len(rec.maps) == 0 && len(rec.events) == 0, "an unreadable body dispatches nothing")
	verifReach("rejected")
}

func VerifC14_Twin() {
	VerifC14_Event()
	verifAssert(false, "twin-false")
}
