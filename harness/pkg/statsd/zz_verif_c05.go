package statsd

import (
	"context"

	"golang.org/x/time/rate"

	"github.com/atlassian/gostatsd"
	"github.com/atlassian/gostatsd/internal/lexer"
	"github.com/atlassian/gostatsd/internal/pool"
)

// verifRecorder is a PipelineHandler that records what it is given.
type verifRecorder struct {
	events []*gostatsd.Event
	maps   []*gostatsd.MetricMap
}

func (r *verifRecorder) DispatchMetricMap(ctx context.Context, mm *gostatsd.MetricMap) {
	r.maps = append(r.maps, mm)
}
func (r *verifRecorder) DispatchEvent(ctx context.Context, e *gostatsd.Event) {
	r.events = append(r.events, e)
}
func (r *verifRecorder) EstimatedTags() int { return 0 }
func (r *verifRecorder) WaitForEvents()     {}

type verifParsed struct {
	metrics []*gostatsd.Metric
	events  []*gostatsd.Event
	nEvents uint64
	nBad    uint64
}

func verifNewParser(ns string, ignoreHost bool, rec *verifRecorder, mp *pool.MetricPool) *DatagramParser {
	return &DatagramParser{
		ignoreHost:     ignoreHost,
		handler:        rec,
		namespace:      ns,
		metricPool:     mp,
		badLineLimiter: &rate.Limiter{},
	}
}

func verifParse(msg []byte, ns string, ignoreHost bool, now gostatsd.Nanotime, ip gostatsd.Source) verifParsed {
	rec := &verifRecorder{}
	mp := pool.NewMetricPool(0)
	dp := verifNewParser(ns, ignoreHost, rec, mp)
	l := &lexer.Lexer{MetricPool: mp}
	ms, ne, nb := dp.handleDatagram(context.Background(), l, now, ip, msg)
	return verifParsed{metrics: ms, events: rec.events, nEvents: ne, nBad: nb}
}

func verifSameMetric(a, b *gostatsd.Metric, what string) {
	verifAssert(a.Name == b.Name, what+": name")
	verifAssert(a.Type == b.Type, what+": type")
	verifAssert(a.Value == b.Value || (a.Value != a.Value && b.Value != b.Value), what+": value")
	verifAssert(a.StringValue == b.StringValue, what+": string value")
	verifAssert(a.Rate == b.Rate, what+": rate")
	verifAssert(a.Source == b.Source, what+": source")
	verifAssert(a.Timestamp == b.Timestamp, what+": timestamp")
	verifAssert(len(a.Tags) == len(b.Tags), what+": number of tags")
	for i := range a.Tags {
		if i < len(b.Tags) {
			verifAssert(a.Tags[i] == b.Tags[i], what+": tag")
		}
	}
}

func verifSameEvent(a, b *gostatsd.Event, what string) {
	for i := range a.Tags {
		if i < len(b.Tags) {
			verifAssert(a.Tags[i] == b.Tags[i], what+": event tag")
		}
	}
	verifAssert(a.Title == b.Title && a.Text == b.Text, what+": title/text")
	verifAssert(a.Source == b.Source && a.AggregationKey == b.AggregationKey && a.SourceTypeName == b.SourceTypeName, what+": strings")
	verifAssert(a.Priority == b.Priority && a.AlertType == b.AlertType, what+": enums")
	verifAssert(len(a.Tags) == len(b.Tags), what+": number of tags")
}

func verifLine(n int) []byte {
	b := nondetBytes(n)
	for i := range b {
		verifAssume(b[i] != '\n')
	}
	return b
}

func verifCopyBytes(b []byte) []byte { return append([]byte{}, b...) }

// verifShaped is a line k ':' v '|' t with symbolic k, v, t: valid or invalid, with or
// without in-place name normalisation (or deletion of the whole name), depending on the bytes.
func verifShaped() []byte {
	b := verifLine(3)
	return []byte{b[0], ':', b[1], '|', b[2]}
}

// line kinds below -1: grammar-generated lines with tags
//   -2 metric with two symbolic one-byte tags      a:1|c|#x,y
//   -3 event with one symbolic one-byte tag        _e{1,1}:t|x|#z
//   -4 metric with a host: tag and another tag     b:2|g|#host:h,w
func verifLineOf(n int) []byte {
	switch n {
	case -1:
		return verifShaped()
	case -2:
		t := verifTagBytes(2)
		return []byte{'a', ':', '1', '|', 'c', '|', '#', t[0], ',', t[1]}
	case -3:
		t := verifTagBytes(1)
		return []byte{'_', 'e', '{', '1', ',', '1', '}', ':', 't', '|', 'x', '|', '#', t[0]}
	case -4:
		t := verifTagBytes(2)
		return []byte{'b', ':', '2', '|', 'g', '|', '#', 'h', 'o', 's', 't', ':', t[0], ',', t[1]}
	}
	return verifLine(n)
}

// VerifC05_Concat: parsing line1 \n line2 [\n] equals parsing line1 and line2 alone.
// A negative length selects the shaped line.
func verifC05Concat(n1, n2 int, ns string) {
	l1, l2 := verifLineOf(n1), verifLineOf(n2)
	trailing := nondetBool()
	ignoreHost := nondetBool()
	dg := verifCopyBytes(l1)
	dg = append(dg, '\n')
	dg = append(dg, l2...)
	if trailing {
		dg = append(dg, '\n')
	}
	// the date of events without d: is the wall clock: pin it
	nowCell := int64(1700000000000000000)
	verifSetNow(&nowCell)
	whole := verifParse(dg, ns, ignoreHost, 7, "1.2.3.4")
	a := verifParse(verifCopyBytes(l1), ns, ignoreHost, 7, "1.2.3.4")
	b := verifParse(verifCopyBytes(l2), ns, ignoreHost, 7, "1.2.3.4")
	verifAssert(whole.nBad == a.nBad+b.nBad, "bad-line count is not the sum over the lines")
	verifAssert(whole.nEvents == a.nEvents+b.nEvents, "event count is not the sum over the lines")
	verifAssert(len(whole.metrics) == len(a.metrics)+len(b.metrics), "number of metrics is not the sum over the lines")
	verifAssert(len(whole.events) == len(a.events)+len(b.events), "number of events is not the sum over the lines")
	exp := append(append([]*gostatsd.Metric{}, a.metrics...), b.metrics...)
	for i := range exp {
		if i < len(whole.metrics) {
			verifSameMetric(whole.metrics[i], exp[i], "datagram vs single line")
		}
	}
	expE := append(append([]*gostatsd.Event{}, a.events...), b.events...)
	for i := range expE {
		if i < len(whole.events) {
			verifSameEvent(whole.events[i], expE[i], "datagram vs single line (event)")
		}
	}
	if len(whole.metrics) == 2 {
		verifReach("two-metrics")
	}
	if whole.nBad == 1 && len(whole.metrics) == 1 {
		verifReach("bad-and-good")
	}
}

func VerifC05_Concat_3_3() { verifC05Concat(3, 3, "") }
func VerifC05_Concat_4_3() { verifC05Concat(4, 3, "") }
func VerifC05_Concat_3_4() { verifC05Concat(3, 4, "ns") }
func VerifC05_Concat_4_4() { verifC05Concat(4, 4, "") }
func VerifC05_Concat_5_3() { verifC05Concat(5, 3, "") }
func VerifC05_Concat_3_5() { verifC05Concat(3, 5, "") }

func VerifC05_Concat_S_S() { verifC05Concat(-1, -1, "") }
func VerifC05_Concat_S_3() { verifC05Concat(-1, 3, "ns") }
func VerifC05_Concat_2_S() { verifC05Concat(2, -1, "") }

func VerifC05_Concat_MT_ET() { verifC05Concat(-2, -3, "") }
func VerifC05_Concat_ET_MT() { verifC05Concat(-3, -2, "") }
func VerifC05_Concat_ET_ET() { verifC05Concat(-3, -3, "") }
func VerifC05_Concat_H_MT()  { verifC05Concat(-4, -2, "") }
func VerifC05_Concat_H_S()   { verifC05Concat(-4, -1, "") }
func VerifC05_Concat_MT_H()  { verifC05Concat(-2, -4, "ns") }

// a shaped line (rejected for most bytes) next to an event, both orders; free bytes before an event
func VerifC05_Concat_S_ET() { verifC05Concat(-1, -3, "") }
func VerifC05_Concat_ET_S() { verifC05Concat(-3, -1, "ns") }
func VerifC05_Concat_3_ET() { verifC05Concat(3, -3, "") }

func VerifC05_ConcatTwin() {
	verifC05Concat(3, 3, "")
	verifAssert(false, "twin-false")
}

// VerifC05_Frame: in-place normalisation of one line never touches the rest of the buffer.
func verifC05Frame(n1, n2 int) {
	l1 := verifLine(n1)
	rest := nondetBytes(n2)
	buf := verifCopyBytes(l1)
	buf = append(buf, '\n')
	buf = append(buf, rest...)
	full := buf[: len(buf) : len(buf)]
	mp := pool.NewMetricPool(0)
	l := &lexer.Lexer{MetricPool: mp}
	_, _, _ = l.Run(full[:n1], "")
	verifAssert(full[n1] == '\n', "separator overwritten")
	for i := 0; i < n2; i++ {
		verifAssert(full[n1+1+i] == rest[i], "bytes after the line changed by parsing the line")
	}
	verifReach("done")
}

func VerifC05_Frame_4_2() { verifC05Frame(4, 2) }
func VerifC05_Frame_5_2() { verifC05Frame(5, 2) }
func VerifC05_Frame_6_2() { verifC05Frame(6, 2) }

// VerifC05_Semantics: grammar-generated lines: source / ignore-host / receive time; last gauge wins.
func verifTagBytes(n int) []byte {
	b := nondetBytes(n)
	for i := range b {
		verifAssume(b[i] != 0 && b[i] != '|' && b[i] != ',' && b[i] != '\n')
	}
	return b
}

func VerifC05_LastGauge() {
	v1, v2 := nondetByte(), nondetByte()
	verifAssume('0' <= v1 && v1 <= '9' && '0' <= v2 && v2 <= '9')
	dg := []byte{'g', ':', v1, '|', 'g', '\n', 'g', ':', v2, '|', 'g'}
	if nondetBool() {
		dg = append(dg, '\n')
	}
	p := verifParse(dg, "", false, 7, "1.2.3.4")
	verifAssert(len(p.metrics) == 2 && p.nBad == 0, "two gauge lines must both parse")
	mm := gostatsd.NewMetricMap(false)
	for _, m := range p.metrics {
		mm.Receive(m)
	}
	verifAssert(len(mm.Gauges) == 1, "one gauge series expected")
	for _, byTags := range mm.Gauges {
		verifAssert(len(byTags) == 1, "one tag set expected")
		for _, g := range byTags {
			verifReach("gauge")
			verifAssert(g.Value == float64(v2-'0'), "the gauge does not hold the value of the last line of the datagram")
			verifAssert(g.Timestamp == 7, "gauge timestamp is not the receive time")
			verifAssert(g.Source == "1.2.3.4", "gauge source is not the sender")
		}
	}
}

// VerifC05_IgnoreHost: with ignore-host the first host: tag becomes the source and is removed.
func verifC05IgnoreHost(ntags, tlen int) {
	line := []byte("a:1|c|#")
	hostAt := nondetIntIn(-1, ntags-1) // -1: no host tag
	var expTags gostatsd.Tags
	expSource := gostatsd.Source("")
	for i := 0; i < ntags; i++ {
		if i > 0 {
			line = append(line, ',')
		}
		body := verifTagBytes(tlen)
		if i == hostAt {
			line = append(line, "host:"...)
			line = append(line, body...)
			expSource = gostatsd.Source(body)
		} else {
			// a non-host tag: first byte fixed so that it cannot spell "host:"
			line = append(line, 'x')
			line = append(line, body...)
			expTags = append(expTags, "x"+string(body))
		}
	}
	ignoreHost := nondetBool()
	p := verifParse(line, "", ignoreHost, 9, "5.6.7.8")
	verifAssert(len(p.metrics) == 1 && p.nBad == 0, "line must parse")
	m := p.metrics[0]
	verifAssert(m.Timestamp == 9, "timestamp is not the receive time")
	if !ignoreHost {
		verifReach("keep-host")
		verifAssert(m.Source == "5.6.7.8", "source is not the sender address")
		verifAssert(len(m.Tags) == ntags, "tags changed without ignore-host")
		return
	}
	verifReach("ignore-host")
	verifAssert(m.Source == expSource, "ignore-host: source is not the value of the first host: tag")
	verifAssert(len(m.Tags) == len(expTags), "ignore-host: host tag not removed exactly once")
	for i := range expTags {
		if i < len(m.Tags) {
			verifAssert(m.Tags[i] == expTags[i], "ignore-host: remaining tags")
		}
	}
}

func VerifC05_IgnoreHost_1_1() { verifC05IgnoreHost(1, 1) }
func VerifC05_IgnoreHost_2_1() { verifC05IgnoreHost(2, 1) }
func VerifC05_IgnoreHost_3_1() { verifC05IgnoreHost(3, 1) }
func VerifC05_IgnoreHost_3_2() { verifC05IgnoreHost(3, 2) }

// VerifC05_Alias: after a datagram has been folded into a map, overwriting its buffer and
// parsing another datagram with the same (pooled) metrics must not change the map.
func verifC05Alias(tlen int) {
	mp := pool.NewMetricPool(0)
	rec := &verifRecorder{}
	dp := verifNewParser("", false, rec, mp)
	l := &lexer.Lexer{MetricPool: mp}
	t1, t2 := verifTagBytes(tlen), verifTagBytes(tlen)
	k := nondetIntIn(0, 3)
	typ := []string{"c", "g", "ms", "s"}[k]
	buf := []byte("n:1|" + typ + "|#")
	buf = append(buf, t1...)
	buf = append(buf, ',')
	buf = append(buf, t2...)
	expTag1, expTag2 := string(t1), string(t2)
	ms, _, nb := dp.handleDatagram(context.Background(), l, 5, "9.9.9.9", buf)
	verifAssert(nb == 0 && len(ms) == 1, "first datagram must parse")
	mm := gostatsd.NewMetricMap(false)
	for _, m := range ms {
		mm.Receive(m) // releases the metric to the pool
	}
	// overwrite the buffer, as the receiver does with its pooled buffers
	for i := range buf {
		buf[i] = nondetByte()
	}
	// second datagram re-uses the pooled metric and its tag slice
	o1, o2 := verifTagBytes(tlen), verifTagBytes(tlen)
	buf2 := []byte("zz:2|" + typ + "|#")
	buf2 = append(buf2, o1...)
	buf2 = append(buf2, ',')
	buf2 = append(buf2, o2...)
	ms2, _, _ := dp.handleDatagram(context.Background(), l, 6, "8.8.8.8", buf2)
	verifAssert(len(ms2) == 1, "second datagram must parse")

	check := func(name string, tags gostatsd.Tags, src gostatsd.Source) {
		verifReach("checked")
		verifAssert(name == "n", "series name changed after buffer reuse")
		verifAssert(src == "9.9.9.9", "series source changed after buffer reuse")
		verifAssert(len(tags) == 2, "series tags changed length after buffer reuse")
		// tags are stored sorted
		ok := (tags[0] == expTag1 && tags[1] == expTag2) || (tags[0] == expTag2 && tags[1] == expTag1)
		verifAssert(ok, "series tags changed after the metric and buffer were reused")
	}
	for name, byTags := range mm.Counters {
		for _, c := range byTags {
			check(name, c.Tags, c.Source)
		}
	}
	for name, byTags := range mm.Gauges {
		for _, c := range byTags {
			check(name, c.Tags, c.Source)
		}
	}
	for name, byTags := range mm.Timers {
		for _, c := range byTags {
			check(name, c.Tags, c.Source)
		}
	}
	for name, byTags := range mm.Sets {
		for _, c := range byTags {
			check(name, c.Tags, c.Source)
			_, has := c.Values["1"]
			verifAssert(has && len(c.Values) == 1, "set member changed after buffer reuse")
		}
	}
}

func VerifC05_Alias1() { verifC05Alias(1) }
func VerifC05_Alias2() { verifC05Alias(2) }

// verifC05Recycle: datagram A is parsed and folded into a map (its metrics go back to the pool),
// then datagram B is parsed by the same parser with the same pool (maximal reuse: the pooled
// metric of A is handed out again). What B yields must equal what B yields when parsed by a
// fresh parser with a fresh pool: nothing of A - source, tags, name, value - may leak into B.
func verifC05Recycle(na, nb int) {
	la, lb := verifLineOf(na), verifLineOf(nb)
	ignoreHost := nondetBool()
	nowCell := int64(1700000000000000000)
	verifSetNow(&nowCell)
	mp := pool.NewMetricPool(0)
	rec := &verifRecorder{}
	dp := verifNewParser("", ignoreHost, rec, mp)
	l := &lexer.Lexer{MetricPool: mp}
	ms, _, _ := dp.handleDatagram(context.Background(), l, 5, "9.9.9.9", verifCopyBytes(la))
	mm := gostatsd.NewMetricMap(false)
	for _, m := range ms {
		mm.Receive(m) // releases the metric to the pool
	}
	got, ne, nbad := dp.handleDatagram(context.Background(), l, 6, "8.8.8.8", verifCopyBytes(lb))
	alone := verifParse(verifCopyBytes(lb), "", ignoreHost, 6, "8.8.8.8")
	verifAssert(nbad == alone.nBad && ne == alone.nEvents, "recycle: counts of a datagram do not depend on what was parsed before")
	verifAssert(len(got) == len(alone.metrics), "recycle: number of metrics of a datagram does not depend on what was parsed before")
	for i := range got {
		if i < len(alone.metrics) {
			verifSameMetric(got[i], alone.metrics[i], "a metric parsed into a recycled pool object vs parsed alone")
			verifReach("recycled")
		}
	}
}

func VerifC05_Recycle_H_MT() { verifC05Recycle(-4, -2) }
func VerifC05_Recycle_H_S()  { verifC05Recycle(-4, -1) }
func VerifC05_Recycle_MT_S() { verifC05Recycle(-2, -1) }
