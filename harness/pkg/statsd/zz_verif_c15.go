package statsd

import (
	"bytes"
	"context"
	"io"
	"net/http"
	"strings"
	"sync/atomic"
	"time"

	"github.com/atlassian/gostatsd"
	"github.com/atlassian/gostatsd/internal/flush"
	"github.com/atlassian/gostatsd/pkg/web"
)

// C15: the forwarder delivers every batch exactly once or reports it dropped.

// VerifC15_Retry: the real retry loop of post() against a symbolic fault script: every attempt
// is delivered, refused (connection error) or answered 503. Attempts are bounded by the
// unwinding bound of the harness; the retry window is decided by the real back-off against
// the symbolic clock.
func verifC15Retry(maxAttempts int, elapsed time.Duration) {
	hfh, up := verifNewForwarder(true, maxAttempts, false, web.Zlib, elapsed)
	mm := gostatsd.NewMetricMap(false)
	mm.Counters["c"] = map[string]gostatsd.Counter{"": {Value: 5}}
	hfh.postMetrics(context.Background(), mm, "", 3)
	created, sent := atomic.LoadUint64(&hfh.messagesCreated), atomic.LoadUint64(&hfh.messagesSent)
	retried, dropped := atomic.LoadUint64(&hfh.messagesRetried), atomic.LoadUint64(&hfh.messagesDropped)
	verifAssert(created == 1, "one body is created for the batch")
	verifAssert(!up.afterOK, "a body is sent again after a successful attempt")
	verifAssert(up.delivered <= 1 && len(up.rec.maps) == up.delivered, "the upstream pipeline receives the batch at most once")
	for _, got := range up.rec.maps {
		c, ok := got.Counters["c"][""]
		verifAssert(ok && c.Value == 5, "a delivered request carries the datapoints of the batch (also when it is a retry)")
	}
	verifAssert(sent+dropped == 1, "the batch is either sent or counted once as dropped")
	verifAssert(sent == uint64(up.delivered), "sent iff an attempt succeeded")
	if dropped == 1 {
		verifReach("dropped")
		verifAssert(up.delivered == 0, "a delivered body is not counted as dropped")
	}
	if sent == 1 {
		verifReach("sent")
	}
	verifAssert(retried == uint64(up.attempts)-1 || (dropped == 1 && retried == uint64(up.attempts)-1), "every attempt but the first is counted as a retry, the final failure is not")
	if up.attempts > 1 {
		verifReach("retried")
	}
	if elapsed == -1 {
		verifAssert(up.attempts == 1, "retries disabled: a single attempt")
	}
}

func VerifC15_Retry2()     { verifC15Retry(2, 30*time.Second) }
func VerifC15_Retry3()     { verifC15Retry(3, 30*time.Second) }
func VerifC15_Retry5()     { verifC15Retry(5, 30*time.Second) }
func VerifC15_RetryNone()  { verifC15Retry(2, -1) }

// VerifC15_Utf8: one client's datapoints never cause another client's datapoints in the same
// flush to be lost: a merged batch in which one tag has arbitrary bytes (the parser emits them)
// must still deliver the other series.
func verifC15Utf8(n int) {
	hfh, up := verifNewForwarder(false, 1, false, web.Zlib, 30*time.Second)
	bad := nondetString(n) // any bytes
	mmA := gostatsd.NewMetricMap(false)
	mmA.Counters["good"] = map[string]gostatsd.Counter{"": {Value: 1, Source: "client-a"}}
	mmB := gostatsd.NewMetricMap(false)
	mmB.Counters["other"] = map[string]gostatsd.Counter{bad: {Value: 2, Source: "client-b", Tags: gostatsd.Tags{bad}}}
	merged := gostatsd.MergeMaps([]*gostatsd.MetricMap{mmA, mmB})
	hfh.postMetrics(context.Background(), merged, "", 1)
	got := int64(0)
	for _, m := range up.rec.maps {
		for _, c := range m.Counters["good"] {
			got += c.Value
		}
	}
	verifAssert(got == 1, "a datapoint of one client is lost because another client's tag is not valid UTF-8")
	verifReach("posted")
}

func VerifC15_Utf8_1() { verifC15Utf8(1) }
func VerifC15_Utf8_2() { verifC15Utf8(2) }

// VerifC15_Split: SplitByTags puts each series in exactly one map, keyed by exactly the sub-list
// of its tags that match a dynamic header name (in order), and the request built for that map
// carries the headers with the tags' values.
var verifDynNames = []string{"region:", "env:"}

func verifC15Split(nSeries, nTags int) {
	mm := gostatsd.NewMetricMap(false)
	type ser struct {
		name string
		tk   string
		key  string
	}
	var sers []ser
	for i := 0; i < nSeries; i++ {
		var tags, match []string
		for t := 0; t < nTags; t++ {
			body := nondetBytes(1)
			verifAssume(body[0] != ',' && body[0] < 0x80 && body[0] > 0x20 && body[0] != ':')
			tag := string(body)
			switch nondetIntIn(0, 2) {
			case 0:
				tag = "region:" + tag
				match = append(match, tag)
			case 1:
				tag = "env:" + tag
				match = append(match, tag)
			}
			tags = append(tags, tag)
		}
		tk := strings.Join(tags, ",")
		n := string([]byte{'n', byte('0' + i)})
		mm.Counters[n] = map[string]gostatsd.Counter{tk: {Value: int64(i + 1), Tags: gostatsd.Tags(tags)}}
		sers = append(sers, ser{n, tk, strings.Join(match, ",")})
	}
	parts := mm.SplitByTags(verifDynNames)
	total := 0
	for _, p := range parts {
		total += verifCountSeries(p)
	}
	verifAssert(total == nSeries, "SplitByTags: series are neither lost nor duplicated")
	for _, s := range sers {
		found := 0
		for key, p := range parts {
			if _, ok := p.Counters[s.name][s.tk]; ok {
				found++
				verifAssert(key == s.key, "SplitByTags: a series is in the map keyed by its tags matching a dynamic header name")
			}
		}
		verifAssert(found == 1, "SplitByTags: each series is in exactly one map")
	}
	verifReach("split")
}

func VerifC15_Split_1_2() { verifC15Split(1, 2) }
func VerifC15_Split_1_3() { verifC15Split(1, 3) }
func VerifC15_Split_2_2() { verifC15Split(2, 2) }

// VerifC15_Header: the request built for a split map carries the dynamic header of its key.
func VerifC15_Header() {
	body := nondetBytes(1)
	verifAssume(body[0] != ',' && body[0] < 0x80 && body[0] > 0x20 && body[0] != ':')
	tag := string(body)
	has := nondetBool()
	if has {
		tag = "region:" + tag
	}
	hfh, up := verifNewForwarder(false, 1, false, web.Zlib, 30*time.Second)
	hfh.dynHeaderNames = verifDynNames
	one := gostatsd.NewMetricMap(false)
	one.Counters["n"] = map[string]gostatsd.Counter{tag: {Value: 1, Tags: gostatsd.Tags{tag}}}
	for key, p := range one.SplitByTags(verifDynNames) {
		hfh.postMetrics(context.Background(), p, key, 1)
	}
	if has {
		verifReach("header")
		verifAssert("region:"+up.dynHeader == tag, "the request carries the dynamic header with the tag's value")
	} else {
		verifAssert(up.dynHeader == "", "no dynamic header for a series without a matching tag")
	}
}

func VerifC15_Twin() {
	verifC15Retry(2, 30*time.Second)
	verifAssert(false, "twin-false")
}

// VerifC15_Pipeline: the real forwarder end to end in one thread of control: the real
// HttpForwarderHandlerV2.Run (as a goroutine under the engine's scheduler: start-up no-op post,
// merge semaphore, request semaphore, MergeMaps, SplitByTags, postMetrics, notifyFlush), the real
// MetricConsolidator (s slots) and the real manual flush coordinator, with the real ingestion
// handler behind a harness RoundTripper. k datapoints are dispatched, a flush is requested
// through the coordinator and awaited: every datapoint whose dispatch returned before the flush
// is delivered upstream in exactly one request, and the semaphores are fully returned.
func verifC15Pipeline(k int) {
	slots := nondetIntIn(1, 3)
	hfh, up := verifNewForwarder(false, 8, false, web.Zlib, 30*time.Second)
	fc := flush.NewFlushCoordinator()
	hfh.flushCoordinator = fc
	hfh.consolidatedMetrics = make(chan []*gostatsd.MetricMap)
	hfh.consolidator = gostatsd.NewMetricConsolidator(slots, false, time.Hour, hfh.consolidatedMetrics)
	fc.RegisterFlushable(hfh.consolidator)
	hfh.metricsSem = make(chan struct{}, 2)
	hfh.metricsSem <- struct{}{}
	hfh.metricsSem <- struct{}{}
	hfh.metricsMergingSem = make(chan struct{}, 1)
	hfh.metricsMergingSem <- struct{}{}
	ctx, cancel := context.WithCancel(context.Background())
	go hfh.Run(ctx)
	verifYield()
	nopRequests := len(up.rec.maps) // the start-up no-op post
	var sent [2]int64
	for i := 0; i < k; i++ {
		ni := nondetIntIn(0, 1)
		v := int64(nondetInt32())
		mm := gostatsd.NewMetricMap(false)
		mm.Counters[verifNames[ni]] = map[string]gostatsd.Counter{"": {Value: v}}
		hfh.DispatchMetricMap(ctx, mm)
		sent[ni] += v
	}
	fc.Flush()
	fc.WaitForFlush()
	var got [2]int64
	requests := 0
	for _, m := range up.rec.maps[nopRequests:] {
		requests++
		for ni := 0; ni < 2; ni++ {
			for _, c := range m.Counters[verifNames[ni]] {
				got[ni] += c.Value
			}
		}
	}
	if k > 0 {
		verifAssert(requests == 1, "one flush of the forwarder produces one request body (no dynamic headers)")
	} else {
		verifAssert(requests == 0, "an empty flush posts nothing")
	}
	verifAssert(got[0] == sent[0] && got[1] == sent[1], "every datapoint dispatched before the flush is delivered upstream exactly once")
	verifAssert(len(hfh.metricsSem) == 2 && len(hfh.metricsMergingSem) == 1, "request and merge semaphores are fully returned")
	cancel()
	verifReach("pipeline")
}

func VerifC15_Pipeline0() { verifC15Pipeline(0) }
func VerifC15_Pipeline1() { verifC15Pipeline(1) }
func VerifC15_Pipeline3() { verifC15Pipeline(3) }

// VerifC15_PipelineConc: the pipeline of VerifC15_Pipeline with two concurrent dispatcher
// goroutines (two datapoints each, a yield before every dispatch), an upstream with latency
// (the request is in flight while everybody else runs) and three manual flushes. Asserted per
// flush: every datapoint whose dispatch had returned before the flush began has been delivered
// when the flush's notification arrives; at the end: everything dispatched was delivered
// exactly once (sums and request count), semaphores returned.
func VerifC15_PipelineConc() {
	slots := nondetIntIn(1, 2)
	hfh, up := verifNewForwarder(false, 16, false, web.Zlib, 30*time.Second)
	slow := &verifSlowUpstream{inner: up}
	hfh.client = &http.Client{Transport: slow}
	fc := flush.NewFlushCoordinator()
	hfh.flushCoordinator = fc
	hfh.consolidatedMetrics = make(chan []*gostatsd.MetricMap)
	hfh.consolidator = gostatsd.NewMetricConsolidator(slots, false, time.Hour, hfh.consolidatedMetrics)
	fc.RegisterFlushable(hfh.consolidator)
	hfh.metricsSem = make(chan struct{}, 2)
	hfh.metricsSem <- struct{}{}
	hfh.metricsSem <- struct{}{}
	hfh.metricsMergingSem = make(chan struct{}, 1)
	hfh.metricsMergingSem <- struct{}{}
	ctx, cancel := context.WithCancel(context.Background())
	go hfh.Run(ctx)
	verifSettle()
	var returned int64 // total of the datapoints whose dispatch has returned
	finishedDispatchers := 0
	for d := 0; d < 2; d++ {
		go func() {
			for j := 0; j < 2; j++ {
				verifYield()
				v := int64(nondetIntIn(1, 9))
				mm := gostatsd.NewMetricMap(false)
				mm.Counters["c"] = map[string]gostatsd.Counter{"": {Value: v}}
				hfh.DispatchMetricMap(ctx, mm)
				returned += v
			}
			finishedDispatchers++
		}()
	}
	delivered := func() int64 {
		var t int64
		for _, m := range up.rec.maps {
			for _, c := range m.Counters["c"] {
				t += c.Value
			}
		}
		return t
	}
	for f := 0; f < 3; f++ {
		if f == 2 {
			verifSettle() // let the dispatchers finish before the last flush
			verifAssert(finishedDispatchers == 2, "dispatchers are not blocked for ever by flushes")
		}
		before := returned
		fc.Flush()
		fc.WaitForFlush()
		verifAssert(delivered() >= before, "every datapoint whose dispatch returned before the flush began is delivered by that flush")
		verifAssert(delivered() <= returned, "nothing is delivered twice")
	}
	verifAssert(delivered() == returned, "everything dispatched is delivered exactly once after the last flush")
	verifAssert(slow.inFlight == 0, "no request is left in flight")
	verifAssert(len(hfh.metricsSem) == 2 && len(hfh.metricsMergingSem) == 1, "request and merge semaphores are fully returned")
	cancel()
	verifReach("pipeline-conc")
}

// VerifC15_Consolidator: the real MetricConsolidator alone, sequentially: epochs of 0..2
// dispatches (each lands in whichever slot is free) separated by flushes into a harness sink.
// The slices handed to the sink are examined only at the end: each must hold exactly what was
// dispatched in its epoch - a later dispatch must not show up in (alias) an earlier flush, and
// nothing may be missing.
func VerifC15_Consolidator() {
	slots := nondetIntIn(1, 3)
	sink := make(chan []*gostatsd.MetricMap, 3)
	mc := gostatsd.NewMetricConsolidator(slots, false, time.Hour, sink)
	var want [3]int64
	var got [3][]*gostatsd.MetricMap
	for e := 0; e < 3; e++ {
		n := nondetIntIn(0, 2)
		for j := 0; j < n; j++ {
			v := int64(nondetIntIn(1, 9))
			mm := gostatsd.NewMetricMap(false)
			mm.Counters["c"] = map[string]gostatsd.Counter{"": {Value: v}}
			mc.ReceiveMetricMap(mm)
			want[e] += v
		}
		mc.Flush()
		got[e] = <-sink
	}
	for e := 0; e < 3; e++ {
		verifAssert(len(got[e]) == slots, "a flush hands over one map per slot")
		var t int64
		for _, m := range got[e] {
			for _, c := range m.Counters["c"] {
				t += c.Value
			}
		}
		verifAssert(t == want[e], "a flushed slice holds exactly the datapoints dispatched since the previous flush (also when looked at later)")
	}
	verifReach("consolidated")
}

// larger bounds for the thorough tier
func VerifC15_Retry7()    { verifC15Retry(7, 30*time.Second) }
func VerifC15_Utf8_3()    { verifC15Utf8(3) }
func VerifC15_Split_2_3() { verifC15Split(2, 3) }
func VerifC15_Pipeline5() { verifC15Pipeline(5) }

// VerifC15_Interleaved: two requests in flight at once. While the first attempt of batch A is
// at the upstream (which will answer 503), the forwarder builds and delivers batch B - the
// forwarder posts concurrently, so this is an ordinary interleaving, played here by calling
// postMetrics for B from inside the transport. A's retry must still carry A's datapoints: a
// request body must not live in storage that building a later request reuses (scratch buffer
// from a pool, shared slice). sync.Pool is LIFO in the engine, the adversarial choice.
type verifInterleaveUp struct {
	hfh   *HttpForwarderHandlerV2
	srv   *web.VerifRawHandler
	phase int
	mmB   *gostatsd.MetricMap
}

func (u *verifInterleaveUp) RoundTrip(req *http.Request) (*http.Response, error) {
	switch u.phase {
	case 0:
		u.phase = 1
		_, _ = io.Copy(io.Discard, req.Body)
		u.hfh.postMetrics(context.Background(), u.mmB, "", 4)
		return &http.Response{StatusCode: 503, Body: io.NopCloser(bytes.NewReader(nil)), Header: http.Header{}}, nil
	default:
		u.phase++
		verifAssume(u.phase <= 4)
		w := &verifRespWriter{hdr: http.Header{}}
		u.srv.MetricHandler(w, req)
		return &http.Response{StatusCode: w.code, Body: io.NopCloser(bytes.NewReader(nil)), Header: http.Header{}}, nil
	}
}

func VerifC15_Interleaved() {
	compress := nondetBool()
	var ct web.CompressionType = web.Zlib
	if nondetBool() {
		ct = web.Lz4
	}
	va, vb := int64(nondetInt32()), int64(nondetInt32())
	hfh, up0 := verifNewForwarder(false, 4, compress, ct, 30*time.Second)
	mmB := gostatsd.NewMetricMap(false)
	mmB.Counters["b"] = map[string]gostatsd.Counter{"": {Value: vb}}
	up := &verifInterleaveUp{hfh: hfh, srv: up0.srv, mmB: mmB}
	hfh.client = &http.Client{Transport: up}
	mmA := gostatsd.NewMetricMap(false)
	mmA.Counters["a"] = map[string]gostatsd.Counter{"": {Value: va}}
	hfh.postMetrics(context.Background(), mmA, "", 3)
	sent, dropped := atomic.LoadUint64(&hfh.messagesSent), atomic.LoadUint64(&hfh.messagesDropped)
	// A may legitimately be dropped: the real back-off decides against the symbolic clock
	verifAssert(sent+dropped == 2 && dropped <= 1, "each batch is either sent or counted once as dropped")
	verifAssert(uint64(len(up0.rec.maps)) == sent, "the upstream pipeline receives exactly the batches counted as sent")
	na, nb := 0, 0
	for _, got := range up0.rec.maps {
		if c, ok := got.Counters["a"][""]; ok {
			na++
			verifAssert(c.Value == va && len(got.Counters) == 1, "the retried request carries its own batch")
		}
		if c, ok := got.Counters["b"][""]; ok {
			nb++
			verifAssert(c.Value == vb && len(got.Counters) == 1, "the request built in between carries its own batch")
		}
	}
	verifAssert(nb == 1 && uint64(na) == sent-1, "each batch is delivered at most once: a retry must not carry the datapoints of a request built after it")
	if na == 1 {
		verifReach("retry-delivered")
	}
	verifReach("interleaved")
}
