package statsd

import (
	"time"

	"github.com/atlassian/gostatsd"
)

// verifTimerMap builds a metric map with one timer carrying n symbolic values.
func verifTimerMap(n int, tags gostatsd.Tags) *gostatsd.MetricMap {
	mm := gostatsd.NewMetricMap(false)
	vals := make([]float64, n)
	for i := range vals {
		vals[i] = nondetFloat64()
	}
	t := gostatsd.NewTimer(10, vals, "h", tags)
	t.SampledCount = float64(n)
	mm.Timers["t"] = map[string]gostatsd.Timer{"": t}
	return mm
}

// VerifC04_AggPct: one timer with n values, one integer percentile in [-100,100], symbolic
// sub-metric mask (count, upper, lower, and mean/sum/sum_squares together); history ReceiveMap; Flush; Reset; Flush (persisted empty series).
func verifC04AggPct(n int) {
	p := nondetIntIn(-100, 100)
	var dis gostatsd.TimerSubtypes
	dis.CountPct = nondetBool()
	dis.UpperPct = nondetBool()
	dis.LowerPct = nondetBool()
	// the remaining three go together (their code paths are the same straight-line reads of the
	// running sums): 16 masks instead of 64
	dis.MeanPct = nondetBool()
	dis.SumPct, dis.SumSquaresPct = dis.MeanPct, dis.MeanPct
	a := NewMetricAggregator([]float64{float64(p)}, 0, 0, 0, 0, dis, 0)
	a.now = func() time.Time { return time.Unix(100, 0) }
	a.ReceiveMap(verifTimerMap(n, nil))
	a.Flush(10 * time.Second)
	verifReach("flushed")
	a.Reset()
	a.Flush(10 * time.Second)
	verifReach("flushed-empty")
}

func VerifC04_AggPct0() { verifC04AggPct(0) }
func VerifC04_AggPct1() { verifC04AggPct(1) }
func VerifC04_AggPct2() { verifC04AggPct(2) }
func VerifC04_AggPct3() { verifC04AggPct(3) }
func VerifC04_AggPct4() { verifC04AggPct(4) }
