package statsd

import (
	"context"

	"github.com/atlassian/gostatsd"
)

// VerifC06_Dispatch: the routing step between Split and the aggregator workers. The real
// BackendHandler.DispatchMetricMap (workers not running, queues large enough) is given a batch
// of 1..3 counter series with symbolic one-byte names and a tag set out of two, for 1..4
// workers: every series arrives in exactly one worker's queue, the worker is the one
// the series reaches when it is dispatched alone (so it does not depend on the rest of the
// batch, in particular not on which shards are empty), and nothing else arrives.
func VerifC06_Dispatch() {
	nw := nondetIntIn(1, 4)
	bh := NewBackendHandler(nil, 1, nw, 4, AggregatorFactoryFunc(func() Aggregator {
		return NewMetricAggregator(nil, 0, 0, 0, 0, gostatsd.TimerSubtypes{}, 0)
	}))
	n := nondetIntIn(1, 3)
	mm := gostatsd.NewMetricMap(false)
	type series struct {
		name, tk string
		val      int64
	}
	var in []series
	for i := 0; i < n; i++ {
		b := nondetByte()
		verifAssume(b >= 'a' && b <= 'z')
		name := string([]byte{b})
		var tags gostatsd.Tags
		if nondetBool() {
			tags = gostatsd.Tags{"t:1"}
		}
		m := &gostatsd.Metric{Name: name, Tags: tags, Value: float64(i + 1), Rate: 1, Type: gostatsd.COUNTER, Timestamp: 5}
		tk := gostatsd.FormatTagsKey("", tags)
		dup := false
		for _, s := range in {
			if s.name == name && s.tk == tk {
				dup = true
			}
		}
		verifAssume(!dup) // distinct series
		mm.Receive(m)
		in = append(in, series{name, tk, int64(i + 1)})
	}
	bh.DispatchMetricMap(context.Background(), mm)
	total := 0
	for _, s := range in {
		// the worker of this series when it is dispatched alone (same worker count)
		want := -1
		alone := NewBackendHandler(nil, 1, nw, 4, AggregatorFactoryFunc(func() Aggregator {
			return NewMetricAggregator(nil, 0, 0, 0, 0, gostatsd.TimerSubtypes{}, 0)
		}))
		one := gostatsd.NewMetricMap(false)
		one.Counters[s.name] = map[string]gostatsd.Counter{s.tk: {Value: s.val}}
		alone.DispatchMetricMap(context.Background(), one)
		for wi, w := range alone.workers {
			if len(w.metricMapQueue) > 0 {
				verifAssert(want == -1, "dispatch: a single series reaches one worker")
				want = wi
			}
		}
		found := 0
		for wi, w := range bh.workers {
			for k := 0; k < len(w.metricMapQueue); k++ {
				q := <-w.metricMapQueue
				w.metricMapQueue <- q
				if c, ok := q.Counters[s.name][s.tk]; ok {
					found++
					verifAssert(c.Value == s.val, "dispatch: the series arrives with its value")
					verifAssert(wi == want, "dispatch: a series goes to the worker chosen by its identity and the worker count alone")
				}
			}
		}
		verifAssert(found == 1, "dispatch: every series of the batch reaches exactly one worker")
	}
	for _, w := range bh.workers {
		for k := 0; k < len(w.metricMapQueue); k++ {
			q := <-w.metricMapQueue
			w.metricMapQueue <- q
			for _, byTags := range q.Counters {
				total += len(byTags)
			}
			verifAssert(!q.IsEmpty(), "dispatch: an empty shard is not queued")
		}
	}
	verifAssert(total == len(in), "dispatch: nothing but the batch's series is queued")
	verifReach("dispatched")
}
