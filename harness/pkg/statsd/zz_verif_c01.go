package statsd

import (
	"context"
	"time"

	"github.com/sirupsen/logrus"

	"github.com/atlassian/gostatsd"
	"github.com/atlassian/gostatsd/pkg/stats"
)

// C01: every datapoint lands in exactly one flush.

var verifNames = []string{"a", "b"}
var verifTagSets = []gostatsd.Tags{nil, {"t:1"}}

type verifAcct struct {
	counter [2][2]int64
	tcount  [2][2]int
	tsum    [2][2]float64
	sampled [2][2]float64
	members [2][2][2]bool // set members "x","y"
	seenC   [2][2]bool
	seenT   [2][2]bool
	seenS   [2][2]bool
	seenG   [2][2]bool
	gauge   [2][2]float64
}

var verifMembers = []string{"x", "y"}

// ---- (1) ingest: MetricMap.Receive ------------------------------------------------------

func verifC01Ingest(k int) {
	mm := gostatsd.NewMetricMap(false)
	var exp verifAcct
	for i := 0; i < k; i++ {
		ni, ti := nondetIntIn(0, 1), nondetIntIn(0, 1)
		typ := nondetIntIn(1, 4)
		v := nondetFloat64()
		r := nondetFloat64()
		verifAssume(r > 0 && r <= 1)
		verifAssume(v > -1e9 && v < 1e9)
		m := &gostatsd.Metric{Name: verifNames[ni], Tags: verifTagSets[ti].Copy(), Value: v, Rate: r, Type: gostatsd.MetricType(typ), Timestamp: 5}
		switch gostatsd.MetricType(typ) {
		case gostatsd.COUNTER:
			exp.counter[ni][ti] += int64(v / r)
			exp.seenC[ni][ti] = true
		case gostatsd.TIMER:
			exp.tcount[ni][ti]++
			exp.tsum[ni][ti] += v
			exp.sampled[ni][ti] += 1 / r
			exp.seenT[ni][ti] = true
		case gostatsd.GAUGE:
			exp.gauge[ni][ti] = v
			exp.seenG[ni][ti] = true
		default:
			mi := nondetIntIn(0, 1)
			m.StringValue = verifMembers[mi]
			exp.members[ni][ti][mi] = true
			exp.seenS[ni][ti] = true
		}
		mm.Receive(m)
	}
	verifCheckMap(mm, &exp, "ingest")
	verifReach("ingested")
}

// verifCheckMap asserts that mm holds exactly what exp describes.
func verifCheckMap(mm *gostatsd.MetricMap, exp *verifAcct, what string) {
	nC, nT, nS, nG := 0, 0, 0, 0
	for ni := 0; ni < 2; ni++ {
		for ti := 0; ti < 2; ti++ {
			tk := gostatsd.FormatTagsKey("", verifTagSets[ti])
			c, okC := mm.Counters[verifNames[ni]][tk]
			verifAssert(okC == exp.seenC[ni][ti], what+": counter series present iff sent")
			if okC {
				nC++
				verifAssert(c.Value == exp.counter[ni][ti], what+": counter is the sum of trunc(value/rate)")
			}
			t, okT := mm.Timers[verifNames[ni]][tk]
			verifAssert(okT == exp.seenT[ni][ti], what+": timer series present iff sent")
			if okT {
				nT++
				verifAssert(len(t.Values) == exp.tcount[ni][ti], what+": timer holds every value received, once")
				var s float64
				for _, v := range t.Values {
					s += v
				}
				verifAssert(s == exp.tsum[ni][ti], what+": timer values are those received")
				verifAssert(t.SampledCount == exp.sampled[ni][ti], what+": sampled count is the sum of 1/rate")
			}
			st, okS := mm.Sets[verifNames[ni]][tk]
			verifAssert(okS == exp.seenS[ni][ti], what+": set series present iff sent")
			if okS {
				nS++
				for mi := 0; mi < 2; mi++ {
					_, has := st.Values[verifMembers[mi]]
					verifAssert(has == exp.members[ni][ti][mi], what+": set members are exactly those received")
				}
			}
			g, okG := mm.Gauges[verifNames[ni]][tk]
			verifAssert(okG == exp.seenG[ni][ti], what+": gauge series present iff sent")
			if okG {
				nG++
				verifAssert(g.Value == exp.gauge[ni][ti], what+": gauge holds the last value")
			}
		}
	}
	// nothing that was never sent
	verifAssert(verifCountSeries(mm) == nC+nT+nS+nG, what+": a series that was never sent is reported")
}

func verifCountSeries(mm *gostatsd.MetricMap) int {
	n := 0
	for _, m := range mm.Counters {
		n += len(m)
	}
	for _, m := range mm.Timers {
		n += len(m)
	}
	for _, m := range mm.Sets {
		n += len(m)
	}
	for _, m := range mm.Gauges {
		n += len(m)
	}
	return n
}

func VerifC01_Ingest1() { verifC01Ingest(1) }
func VerifC01_Ingest2() { verifC01Ingest(2) }
func VerifC01_Ingest3() { verifC01Ingest(3) }

// ---- (3) aggregator step with the real flusher --------------------------------------------

type verifInlineProc struct{ aggr Aggregator }

func (p *verifInlineProc) Process(ctx context.Context, f DispatcherProcessFunc) gostatsd.Wait {
	f(0, p.aggr)
	return func() {}
}

type verifSnapBackend struct {
	calls int
	snap  verifAcct
	dup   bool
}

func (b *verifSnapBackend) Name() string { return "snap" }
func (b *verifSnapBackend) SendEvent(ctx context.Context, e *gostatsd.Event) error { return nil }
func (b *verifSnapBackend) SendMetricsAsync(ctx context.Context, mm *gostatsd.MetricMap, cb gostatsd.SendCallback) {
	b.calls++
	verifSnapshot(mm, &b.snap)
	cb(nil)
}

func verifSnapshot(mm *gostatsd.MetricMap, s *verifAcct) {
	for ni := 0; ni < 2; ni++ {
		for ti := 0; ti < 2; ti++ {
			tk := gostatsd.FormatTagsKey("", verifTagSets[ti])
			if c, ok := mm.Counters[verifNames[ni]][tk]; ok {
				s.seenC[ni][ti], s.counter[ni][ti] = true, c.Value
			}
			if t, ok := mm.Timers[verifNames[ni]][tk]; ok {
				s.seenT[ni][ti], s.tcount[ni][ti], s.sampled[ni][ti] = true, len(t.Values), t.SampledCount
				for _, v := range t.Values {
					s.tsum[ni][ti] += v
				}
			}
			if st, ok := mm.Sets[verifNames[ni]][tk]; ok {
				s.seenS[ni][ti] = true
				for mi := 0; mi < 2; mi++ {
					_, s.members[ni][ti][mi] = st.Values[verifMembers[mi]]
				}
			}
			if g, ok := mm.Gauges[verifNames[ni]][tk]; ok {
				s.seenG[ni][ti], s.gauge[ni][ti] = true, g.Value
			}
		}
	}
}

// verifArbitraryAggregate fills the aggregator with an arbitrary state over the key universe
// and returns the ghost accounting ("pending") equal to it.
func verifArbitraryAggregate(a *MetricAggregator, types int, nn int) *verifAcct {
	p := &verifAcct{}
	for ni := 0; ni < nn; ni++ {
		for ti := 0; ti < 2; ti++ {
			tk := gostatsd.FormatTagsKey("", verifTagSets[ti])
			name := verifNames[ni]
			if types&1 != 0 && nondetBool() {
				v := nondetInt64In(-(1 << 40), 1<<40)
				if a.metricMap.Counters[name] == nil {
					a.metricMap.Counters[name] = map[string]gostatsd.Counter{}
				}
				a.metricMap.Counters[name][tk] = gostatsd.Counter{Value: v, Timestamp: 3, Tags: verifTagSets[ti].Copy()}
				p.seenC[ni][ti], p.counter[ni][ti] = true, v
			}
			if types&2 != 0 && nondetBool() {
				n := nondetIntIn(0, 2)
				t := gostatsd.Timer{Timestamp: 3, Tags: verifTagSets[ti].Copy(), Values: []float64{}}
				for j := 0; j < 2; j++ {
					if j < n {
						v := nondetFloat64()
						t.Values = append(t.Values, v)
						p.tsum[ni][ti] += v
					}
				}
				t.SampledCount = nondetFloat64()
				verifAssume(t.SampledCount >= 0)
				if n == 0 {
					t.SampledCount = 0
				}
				if a.metricMap.Timers[name] == nil {
					a.metricMap.Timers[name] = map[string]gostatsd.Timer{}
				}
				a.metricMap.Timers[name][tk] = t
				p.seenT[ni][ti], p.tcount[ni][ti], p.sampled[ni][ti] = true, n, t.SampledCount
			}
			if types&4 != 0 && nondetBool() {
				s := gostatsd.Set{Timestamp: 3, Tags: verifTagSets[ti].Copy(), Values: map[string]struct{}{}}
				for mi := 0; mi < 2; mi++ {
					if nondetBool() {
						s.Values[verifMembers[mi]] = struct{}{}
						p.members[ni][ti][mi] = true
					}
				}
				if a.metricMap.Sets[name] == nil {
					a.metricMap.Sets[name] = map[string]gostatsd.Set{}
				}
				a.metricMap.Sets[name][tk] = s
				p.seenS[ni][ti] = true
			}
		}
	}
	return p
}

func verifAcctAdd(p *verifAcct, q *verifAcct) {
	for ni := 0; ni < 2; ni++ {
		for ti := 0; ti < 2; ti++ {
			p.counter[ni][ti] += q.counter[ni][ti]
			p.tcount[ni][ti] += q.tcount[ni][ti]
			p.tsum[ni][ti] += q.tsum[ni][ti]
			p.sampled[ni][ti] += q.sampled[ni][ti]
			p.seenC[ni][ti] = p.seenC[ni][ti] || q.seenC[ni][ti]
			p.seenT[ni][ti] = p.seenT[ni][ti] || q.seenT[ni][ti]
			p.seenS[ni][ti] = p.seenS[ni][ti] || q.seenS[ni][ti]
			for mi := 0; mi < 2; mi++ {
				p.members[ni][ti][mi] = p.members[ni][ti][mi] || q.members[ni][ti][mi]
			}
		}
	}
}

// verifC01Step: arbitrary aggregate == pending; one command: ReceiveMap(batch) or the real
// flush (MetricFlusher.flushData: Flush -> Process(send) -> Reset in one process command).
func verifC01Step(types int, nn int) {
	a := NewMetricAggregator(nil, 0, 0, 0, 0, gostatsd.TimerSubtypes{}, 0)
	a.now = func() time.Time { return time.Unix(100, 0) }
	pending := verifArbitraryAggregate(a, types, nn)
	if nondetBool() {
		// ReceiveMap of an arbitrary batch over the same universe
		b := NewMetricAggregator(nil, 0, 0, 0, 0, gostatsd.TimerSubtypes{}, 0)
		batch := verifArbitraryAggregate(b, types, nn)
		a.ReceiveMap(b.metricMap)
		verifAcctAdd(pending, batch)
		verifCheckAgg(a.metricMap, pending, "after ReceiveMap the aggregate is pending plus the batch")
		verifReach("received")
		return
	}
	be := &verifSnapBackend{}
	fl := NewMetricFlusher(10*time.Second, 0, false, &verifInlineProc{aggr: a}, []gostatsd.Backend{be})
	fl.flushData(context.Background(), 10*time.Second, stats.NewNullStatser())
	verifAssert(be.calls == 1, "one flush hands one map to the backend")
	verifCheckAcctEqual(&be.snap, pending, "the map handed to the backend at a flush is exactly what was pending")
	// after Reset: every surviving key is emptied
	var empty verifAcct
	empty.seenC, empty.seenT, empty.seenS = pending.seenC, pending.seenT, pending.seenS
	verifCheckAgg(a.metricMap, &empty, "after the flush nothing is pending (no datapoint is reported twice)")
	verifReach("flushed")
}

func verifCheckAgg(mm *gostatsd.MetricMap, exp *verifAcct, what string) {
	var s verifAcct
	verifSnapshot(mm, &s)
	verifCheckAcctEqual(&s, exp, what)
	n := 0
	for ni := 0; ni < 2; ni++ {
		for ti := 0; ti < 2; ti++ {
			if exp.seenC[ni][ti] {
				n++
			}
			if exp.seenT[ni][ti] {
				n++
			}
			if exp.seenS[ni][ti] {
				n++
			}
		}
	}
	verifAssert(verifCountSeries(mm) == n, what+" (no foreign series)")
}

func verifCheckAcctEqual(got, exp *verifAcct, what string) {
	for ni := 0; ni < 2; ni++ {
		for ti := 0; ti < 2; ti++ {
			verifAssert(got.seenC[ni][ti] == exp.seenC[ni][ti] && got.seenT[ni][ti] == exp.seenT[ni][ti] && got.seenS[ni][ti] == exp.seenS[ni][ti], what+": series")
			verifAssert(got.counter[ni][ti] == exp.counter[ni][ti], what+": counter")
			verifAssert(got.tcount[ni][ti] == exp.tcount[ni][ti] && got.tsum[ni][ti] == exp.tsum[ni][ti], what+": timer values")
			verifAssert(got.sampled[ni][ti] == exp.sampled[ni][ti], what+": sampled count")
			for mi := 0; mi < 2; mi++ {
				verifAssert(got.members[ni][ti][mi] == exp.members[ni][ti][mi], what+": set members")
			}
		}
	}
}

func VerifC01_StepCounters() { verifC01Step(1, 2) }
func VerifC01_StepTimers()   { verifC01Step(2, 1) }
func VerifC01_StepSets()     { verifC01Step(4, 1) }
func VerifC01_StepMixed()    { verifC01Step(7, 1) }
func VerifC01_StepTimers2()  { verifC01Step(2, 2) }
func VerifC01_StepSets2()    { verifC01Step(4, 2) }

// ---- (4) end to end: parser batch -> BackendHandler -> workers -> flusher ------------------

// verifC01Pipeline: real BackendHandler with nw workers (real MetricAggregators, real worker
// goroutines under the engine's cooperative scheduler), real MetricFlusher.flushData; a history
// of symbolic commands {dispatch a batch of one datapoint | flush}. Summed over all flushes
// each counter equals the sum sent; nothing is reported that was never sent.
func verifC01Pipeline(nw, steps int) {
	be := &verifSumBackend{}
	af := AggregatorFactoryFunc(func() Aggregator {
		a := NewMetricAggregator(nil, 0, 0, 0, 0, gostatsd.TimerSubtypes{}, 0)
		a.now = func() time.Time { return time.Unix(100, 0) }
		return a
	})
	// per-shard queue size 0 (unbuffered), 1 or 2
	qs := nondetIntIn(0, 2)
	if qs == 0 {
		qs = 0
	} else if qs == 1 {
		qs = 1
	} else {
		qs = 2
	}
	bh := NewBackendHandler([]gostatsd.Backend{be}, 1, nw, qs, af)
	ctx := context.Background()
	for _, w := range bh.workers {
		go w.work()
	}
	fl := NewMetricFlusher(10*time.Second, 0, false, bh, []gostatsd.Backend{be})
	var sent verifAcct
	for s := 0; s < steps; s++ {
		if nondetBool() {
			ni, ti := nondetIntIn(0, 1), nondetIntIn(0, 1)
			v := int64(nondetInt32())
			mm := gostatsd.NewMetricMap(false)
			m := &gostatsd.Metric{Name: verifNames[ni], Tags: verifTagSets[ti].Copy(), Value: float64(v), Rate: 1, Type: gostatsd.COUNTER, Timestamp: 5}
			mm.Receive(m)
			bh.DispatchMetricMap(ctx, mm)
			sent.counter[ni][ti] += v
			sent.seenC[ni][ti] = true
			verifReach("dispatched")
		} else {
			be.inFlush = map[string]bool{}
			fl.flushData(ctx, 10*time.Second, stats.NewNullStatser())
			verifReach("flush")
		}
	}
	// Two final flushes account for everything dispatched before them: a worker's select may
	// legitimately take the flush command before a batch that is already queued (that batch
	// then lands in the next flush), so one flush is not enough.
	for k := 0; k < 2; k++ {
		be.inFlush = map[string]bool{}
		fl.flushData(ctx, 10*time.Second, stats.NewNullStatser())
	}
	for ni := 0; ni < 2; ni++ {
		for ti := 0; ti < 2; ti++ {
			verifAssert(be.total.counter[ni][ti] == sent.counter[ni][ti], "summed over all flushes a counter equals the sum of its datapoints")
			verifAssert(be.total.seenC[ni][ti] == sent.seenC[ni][ti], "a series is reported iff it was sent")
		}
	}
	verifAssert(!be.dup, "a series is reported twice within one flush")
}

type verifSumBackend struct {
	total   verifAcct
	inFlush map[string]bool
	dup     bool
}

func (b *verifSumBackend) Name() string { return "sum" }
func (b *verifSumBackend) SendEvent(ctx context.Context, e *gostatsd.Event) error { return nil }
func (b *verifSumBackend) SendMetricsAsync(ctx context.Context, mm *gostatsd.MetricMap, cb gostatsd.SendCallback) {
	for ni := 0; ni < 2; ni++ {
		for ti := 0; ti < 2; ti++ {
			tk := gostatsd.FormatTagsKey("", verifTagSets[ti])
			if c, ok := mm.Counters[verifNames[ni]][tk]; ok {
				key := verifNames[ni] + "|" + tk
				if b.inFlush[key] {
					b.dup = true
				}
				b.inFlush[key] = true
				b.total.counter[ni][ti] += c.Value
				b.total.seenC[ni][ti] = true
			}
		}
	}
	cb(nil)
}

func VerifC01_Pipeline_1_2() { verifC01Pipeline(1, 2) }
func VerifC01_Pipeline_2_3() { verifC01Pipeline(2, 3) }
func VerifC01_Pipeline_3_3() { verifC01Pipeline(3, 3) }
func VerifC01_Pipeline_2_4() { verifC01Pipeline(2, 4) }

func VerifC01_Twin() {
	verifC01Pipeline(2, 2)
	verifAssert(false, "twin-false")
}

// verifC01Full: the whole standalone ingest path as goroutines - np real DatagramParser.Run
// loops (real lexer, MetricMap.Receive) reading batches of datagrams from the receiver channel,
// the real BackendHandler with nw aggregator workers, and the real flushData - under the
// engine's scheduler. Datagrams are generated from symbolic pieces: one or two counter lines
// `a:<d>|c` / `b:<d>|c|@.5` (digit 3 or 7, rate optional). The harness sends `steps`
// commands {datagram batch | flush} without waiting for the parsers, then settles and flushes
// twice: summed over all flushes a counter's total equals the sum of trunc(value/rate), nothing
// is reported for a series never sent, no series twice in a flush.
func verifC01Full(np, nw, steps int) {
	be := &verifSumBackend{}
	af := AggregatorFactoryFunc(func() Aggregator {
		a := NewMetricAggregator(nil, 0, 0, 0, 0, gostatsd.TimerSubtypes{}, 0)
		a.now = func() time.Time { return time.Unix(100, 0) }
		return a
	})
	// the script is drawn before any goroutine starts
	type cmd struct {
		flush bool
		lines int
		name  [2]int
		digit [2]byte
		rated [2]bool
	}
	script := make([]cmd, steps)
	for s := range script {
		c := &script[s]
		c.flush = nondetBool()
		if c.flush {
			continue
		}
		c.lines = nondetIntIn(1, 2)
		// first line symbolic (name, digit 3 or 7 - parsing symbolic numbers is C02's subject -,
		// rate or not); an optional second line is always `b:3|c|@.5`
		c.name[0] = nondetIntIn(0, 1)
		c.digit[0] = '3'
		if nondetBool() {
			c.digit[0] = '7'
		}
		c.rated[0] = nondetBool()
		c.name[1], c.digit[1], c.rated[1] = 1, '3', true
	}
	qs := nondetIntIn(0, 1)
	bh := NewBackendHandler([]gostatsd.Backend{be}, 1, nw, qs, af)
	ctx, cancel := context.WithCancel(context.Background())
	defer cancel()
	for _, w := range bh.workers {
		go w.work()
	}
	in := make(chan []*Datagram)
	for p := 0; p < np; p++ {
		dp := NewDatagramParser(in, "", true, 0, bh, 0, false, logrus.StandardLogger())
		go dp.Run(ctx)
	}
	fl := NewMetricFlusher(10*time.Second, 0, false, bh, []gostatsd.Backend{be})
	verifSettle()
	var sent verifAcct
	for _, c := range script {
		if c.flush {
			be.inFlush = map[string]bool{}
			fl.flushData(ctx, 10*time.Second, stats.NewNullStatser())
			verifReach("flush")
			continue
		}
		var msg []byte
		for j := 0; j < c.lines; j++ {
			msg = append(msg, verifNames[c.name[j]]...)
			msg = append(msg, ':', c.digit[j], '|', 'c')
			v := int64(c.digit[j] - '0')
			if c.rated[j] {
				msg = append(msg, '|', '@', '.', '5')
				v *= 2 // trunc(v / 0.5)
			}
			msg = append(msg, '\n')
			sent.counter[c.name[j]][0] += v
			sent.seenC[c.name[j]][0] = true
		}
		in <- []*Datagram{{IP: "1.2.3.4", Msg: msg, Timestamp: 5, DoneFunc: func() {}}}
		verifReach("datagram")
	}
	verifSettle()
	for k := 0; k < 2; k++ {
		be.inFlush = map[string]bool{}
		fl.flushData(ctx, 10*time.Second, stats.NewNullStatser())
	}
	for ni := 0; ni < 2; ni++ {
		verifAssert(be.total.counter[ni][0] == sent.counter[ni][0], "summed over all flushes a counter equals the sum of trunc(value/rate) of its datapoints")
		verifAssert(be.total.seenC[ni][0] == sent.seenC[ni][0], "a series is reported iff it was sent")
		verifAssert(!be.total.seenC[ni][1], "nothing is reported for a series that was never sent")
	}
	verifAssert(!be.dup, "a series is reported twice within one flush")
	verifReach("full-done")
}

func VerifC01_Full_1_1_2() { verifC01Full(1, 1, 2) }
func VerifC01_Full_2_2_3() { verifC01Full(2, 2, 3) }
