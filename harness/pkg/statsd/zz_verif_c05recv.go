package statsd

import (
	"context"
	"errors"
	"net"
	"time"

	"github.com/atlassian/gostatsd"
	"github.com/atlassian/gostatsd/internal/pool"
)

// VerifC05_Receiver: the real DatagramReceiver.Receive loop (generic batch reader, buffer pool
// rotation, DoneFunc) as a goroutine reading from a harness PacketConn that delivers six
// datagrams with symbolic payload bytes from six senders. The harness plays the parser side:
// it takes the batches from the receiver's (unbuffered) output channel and HOLDS them. A buffer
// may be read into again only after its datagram's DoneFunc ran: the payloads of all datagrams
// still held stay intact while later datagrams are read, whatever is then written into them
// stays there, every datagram carries its own sender and a receive time, and each is delivered
// exactly once.

type verifPacketConn struct {
	payloads [][]byte
	next     int
	wake     chan struct{}
}

func (c *verifPacketConn) ReadFrom(b []byte) (int, net.Addr, error) {
	if c.next >= len(c.payloads) {
		<-c.wake // nothing more on the socket until shutdown
		return 0, nil, errors.New("use of closed network connection")
	}
	k := c.next
	c.next++
	n := copy(b, c.payloads[k])
	return n, &net.UDPAddr{IP: net.IPv4(10, 0, 0, byte(k+1)), Port: 8125}, nil
}
func (c *verifPacketConn) WriteTo(b []byte, addr net.Addr) (int, error) { return len(b), nil }
func (c *verifPacketConn) Close() error                                { return nil }
func (c *verifPacketConn) LocalAddr() net.Addr                         { return &net.UDPAddr{} }
func (c *verifPacketConn) SetDeadline(t time.Time) error               { return nil }
func (c *verifPacketConn) SetReadDeadline(t time.Time) error           { return nil }
func (c *verifPacketConn) SetWriteDeadline(t time.Time) error          { return nil }

func VerifC05_Receiver() {
	const n = 6
	conn := &verifPacketConn{wake: make(chan struct{})}
	var want [n][]byte
	for k := 0; k < n; k++ {
		p := nondetBytes(2)
		want[k] = append([]byte{}, p...)
		conn.payloads = append(conn.payloads, p)
	}
	releaseFirst := nondetIntIn(0, 2) // which held datagram is released before the last one is read
	out := make(chan []*Datagram)
	dr := &DatagramReceiver{out: out, receiveBatchSize: nondetIntIn(1, 2), bufPool: pool.NewDatagramBufferPool(8)}
	ctx, cancel := context.WithCancel(context.Background())
	go dr.Receive(ctx, conn)
	verifYield()
	var held []*Datagram
	take := func() {
		dgs := <-out
		verifAssert(len(dgs) == 1, "the generic reader hands over one datagram per batch")
		held = append(held, dgs...)
		verifYield() // the receiver goes on and reads the next datagram into its next buffer
	}
	same := func(a, b []byte) bool {
		if len(a) != len(b) {
			return false
		}
		for i := range a {
			if a[i] != b[i] {
				return false
			}
		}
		return true
	}
	intact := func(msg string) {
		for k, dg := range held {
			if dg != nil {
				verifAssert(same(dg.Msg, want[k]), msg)
			}
		}
	}
	take()
	take()
	take()
	intact("a datagram still held by the parser is overwritten by a later read (its buffer was reused before DoneFunc)")
	for k, dg := range held {
		verifAssert(dg.IP == gostatsd.Source(net.IPv4(10, 0, 0, byte(k+1)).String()), "a datagram carries the address of its own sender")
		verifAssert(dg.Timestamp != 0, "a datagram carries its receive time")
	}
	// the parser is done with one of them: its buffer goes back to the pool and may be used again
	held[releaseFirst].DoneFunc()
	held[releaseFirst] = nil
	for k := 3; k < n; k++ {
		take() // later datagrams (possibly read into the released buffer)
		intact("a datagram still held by the parser is overwritten after ANOTHER datagram's buffer was released")
	}
	verifAssert(same(held[n-1].Msg, want[n-1]), "the last datagram is delivered intact")
	// whatever the parser side writes into a held buffer stays there (nobody else owns it)
	for _, dg := range held {
		if dg != nil {
			for i := range dg.Msg {
				dg.Msg[i] = 0xEE
			}
		}
	}
	verifYield()
	for _, dg := range held {
		if dg != nil {
			for i := range dg.Msg {
				verifAssert(dg.Msg[i] == 0xEE, "a held buffer is written to by the receiver")
			}
			dg.DoneFunc()
		}
	}
	cancel()
	close(conn.wake)
	verifYield()
	verifAssert(conn.next == n, "every datagram on the socket is read exactly once")
	verifReach("received")
}
