package cloudprovider

import (
	"context"
	"errors"
	"time"

	"github.com/sirupsen/logrus"

	"github.com/atlassian/gostatsd"
)

// C12: the instance cache answers every lookup once and never forgets good data on error.
// One-step inductive harness: arbitrary cache over two sources under the invariant
// "positive/negative gauges = numbers of such entries", then one real operation.

var verifIPs = []gostatsd.Source{"10.0.0.1", "10.0.0.2"}

const verifT0 = int64(1600000000) * 1e9
const verifT1 = int64(1900000000) * 1e9

type verifEntry struct {
	present    bool
	positive   bool
	lastAccess int64
	expires    int64
	inst       *gostatsd.Instance
}

type verifC12 struct {
	ccp  *CachedCloudProvider
	ents [2]verifEntry
	now  int64
}

func verifC12New() *verifC12 {
	st := &verifC12{}
	opts := gostatsd.CacheOptions{
		CacheRefreshPeriod:        time.Duration(nondetInt64In(1, int64(time.Hour))),
		CacheEvictAfterIdlePeriod: time.Duration(nondetInt64In(0, int64(240*time.Hour))),
		CacheTTL:                  time.Duration(nondetInt64In(0, int64(24*time.Hour))),
		CacheNegativeTTL:          time.Duration(nondetInt64In(0, int64(24*time.Hour))),
	}
	st.ccp = NewCachedCloudProvider(nil, nil, nil, opts)
	st.now = nondetInt64In(verifT0, verifT1)
	verifSetNow(&st.now)
	return st
}

func (st *verifC12) arbitrary() {
	for i := 0; i < 2; i++ {
		e := &st.ents[i]
		e.present = nondetBool()
		if !e.present {
			continue
		}
		e.positive = nondetBool()
		e.lastAccess = nondetInt64In(verifT0-int64(1000*time.Hour), verifT1)
		e.expires = nondetInt64In(verifT0-int64(1000*time.Hour), verifT1+int64(100*time.Hour))
		verifAssume(e.lastAccess <= st.now)
		h := &instanceHolder{lastAccessNano: e.lastAccess, expires: time.Unix(0, e.expires)}
		if e.positive {
			e.inst = &gostatsd.Instance{ID: gostatsd.Source("old-" + string(verifIPs[i]))}
			h.instance = e.inst
			st.ccp.statsCachePositive++
		} else {
			st.ccp.statsCacheNegative++
		}
		st.ccp.cache[verifIPs[i]] = h
	}
}

func (st *verifC12) invariant() {
	pos, neg := uint64(0), uint64(0)
	for i := 0; i < 2; i++ {
		h, ok := st.ccp.cache[verifIPs[i]]
		verifAssert(ok == st.ents[i].present, "cache membership agrees with the ghost state")
		if ok {
			if h.instance != nil {
				pos++
			} else {
				neg++
			}
		}
	}
	verifAssert(len(st.ccp.cache) == int(pos+neg), "no foreign cache entries")
	verifAssert(st.ccp.statsCachePositive == pos && st.ccp.statsCacheNegative == neg, "cache-size gauges equal the numbers of positive and negative entries")
}

// VerifC12_Info: a lookup answer arrives.
func VerifC12_Info() {
	st := verifC12New()
	st.arbitrary()
	st.stepInfo()
}

func (st *verifC12) stepInfo() {
	i := nondetIntIn(0, 1)
	ip := verifIPs[i]
	var inst *gostatsd.Instance
	if nondetBool() {
		inst = &gostatsd.Instance{ID: "new"}
	}
	e := &st.ents[i]
	before := len(st.ccp.toReturnInfo)
	refNegBefore, refPosBefore := st.ccp.statsCacheRefreshNegative, st.ccp.statsCacheRefreshPositive
	st.ccp.handleInstanceInfo(gostatsd.InstanceInfo{IP: ip, Instance: inst})
	verifAssert(len(st.ccp.toReturnInfo) == before+1, "every handled answer is queued for return exactly once")
	ret := st.ccp.toReturnInfo[before]
	verifAssert(ret.IP == ip && ret.Instance == inst, "the answer returned to the client is the one received")
	h := st.ccp.cache[ip]
	verifAssert(h != nil, "answered source is cached")
	if h != nil {
		// an answer (first lookup or refresh, successful or not) is not a use of the entry
		if e.present {
			verifAssert(verifNowEq(h.lastAccessNano, e.lastAccess), "a refresh answer leaves the entry's last-use time alone (idle entries must still be evicted)")
		} else {
			verifAssert(verifNowEq(h.lastAccessNano, st.now), "a new entry's last-use time is the time of its creation")
		}
	}
	got, hit := st.ccp.Peek(ip)
	verifAssert(hit, "answered source is a cache hit")
	switch {
	case inst != nil:
		verifAssert(got == inst, "a successful answer is served")
		verifAssert(verifNowEq(h.expires.UnixNano(), st.now+int64(st.ccp.cacheOpts.CacheTTL)), "positive entry expires after the TTL")
		verifReach("positive-answer")
	case e.present && e.positive:
		verifAssert(got == e.inst, "a failed or empty refresh keeps serving the instance resolved earlier")
		verifReach("kept-on-error")
	default:
		verifAssert(got == nil, "negative answer is served as negative")
		verifAssert(verifNowEq(h.expires.UnixNano(), st.now+int64(st.ccp.cacheOpts.CacheNegativeTTL)), "negative entry expires after the negative TTL")
	}
	if e.present {
		verifAssert(st.ccp.statsCacheRefreshNegative+st.ccp.statsCacheRefreshPositive == refNegBefore+refPosBefore+1, "a refresh is counted once")
	}
	// ghost update
	if inst != nil {
		e.positive, e.inst = true, inst
		e.expires = st.now + int64(st.ccp.cacheOpts.CacheTTL)
	} else {
		if !e.present {
			e.positive = false
		}
		e.expires = st.now + int64(st.ccp.cacheOpts.CacheNegativeTTL)
	}
	e.lastAccess = st.now // the Peek above is a use
	e.present = true
	st.invariant()
}

// VerifC12_Refresh: a refresh tick at a symbolic time.
func VerifC12_Refresh() {
	st := verifC12New()
	st.arbitrary()
	st.stepRefresh(nondetInt64In(verifT0, verifT1))
}

func (st *verifC12) stepRefresh(t int64) {
	idle := int64(st.ccp.cacheOpts.CacheEvictAfterIdlePeriod)
	st.ccp.doRefresh(time.Unix(0, t))
	requeued := 0
	for i := 0; i < 2; i++ {
		e := &st.ents[i]
		if !e.present {
			continue
		}
		_, still := st.ccp.cache[verifIPs[i]]
		evict := t-e.lastAccess > idle
		verifAssert(still == !evict, "an entry is evicted exactly when it was unused for longer than the idle period")
		inQueue := 0
		for _, q := range st.ccp.toLookupIPs {
			if q == verifIPs[i] {
				inQueue++
			}
		}
		if evict {
			verifAssert(inQueue == 0, "an evicted entry is not refreshed")
			e.present = false
			verifReach("evicted")
		} else if t > e.expires {
			verifAssert(inQueue == 1, "an entry past its TTL is queried again exactly once")
			requeued++
			verifReach("requeued")
		} else {
			verifAssert(inQueue == 0, "a fresh entry is not queried again")
		}
	}
	verifAssert(len(st.ccp.toLookupIPs) == requeued, "nothing else is queued")
	st.invariant()
}

// VerifC12_Peek: a cache read.
func VerifC12_Peek() {
	st := verifC12New()
	st.arbitrary()
	st.stepPeek()
}

func (st *verifC12) stepPeek() {
	i := nondetIntIn(0, 1)
	got, hit := st.ccp.Peek(verifIPs[i])
	e := st.ents[i]
	verifAssert(hit == e.present, "hit iff cached")
	if e.present {
		if e.positive {
			verifAssert(got == e.inst, "cached instance served")
		} else {
			verifAssert(got == nil, "negative entry served as nil")
		}
		verifAssert(verifNowEq(st.ccp.cache[verifIPs[i]].lastAccessNano, st.now), "a read refreshes the last-access time")
		st.ents[i].lastAccess = st.now
		verifReach("hit")
	}
	st.invariant()
}

// VerifC12_Hist k: a HISTORY of k symbolic commands {answer arrives | refresh tick | cache read}
// from the empty cache, the clock advancing by a symbolic amount before each, with the same
// per-step oracles and the ghost state carried along. The one-step entries start from an
// arbitrary cache but cannot populate state the implementation keeps OUTSIDE the cache map and
// the gauges (a scratch list kept between ticks, a memo): a history reaches it.
func verifC12Hist(k int) {
	st := verifC12New()
	// whole hours plus half an hour for the periods and whole hours for the passing of time: no
	// comparison sits within microseconds of its boundary, so the real clock of a native replay
	// follows the same path (the exact boundaries are the one-step entries' business)
	st.ccp.cacheOpts.CacheEvictAfterIdlePeriod = time.Duration(nondetInt64In(0, 200))*time.Hour + 30*time.Minute
	st.ccp.cacheOpts.CacheTTL = time.Duration(nondetInt64In(0, 23))*time.Hour + 30*time.Minute
	st.ccp.cacheOpts.CacheNegativeTTL = time.Duration(nondetInt64In(0, 23))*time.Hour + 30*time.Minute
	for s := 0; s < k; s++ {
		// time passes: every time stamp the cache holds moves into the past by delta (the
		// conditions under test only look at differences to the current time). Done this way,
		// not by moving the clock, because the native replay runs on the real clock.
		delta := nondetInt64In(0, 300) * int64(time.Hour)
		cmd := nondetIntIn(0, 2)
		if verifNative() {
			st.now = time.Now().UnixNano()
		}
		for i := 0; i < 2; i++ {
			if h := st.ccp.cache[verifIPs[i]]; h != nil {
				h.lastAccessNano -= delta
				h.expires = h.expires.Add(-time.Duration(delta))
				st.ents[i].lastAccess -= delta
				st.ents[i].expires -= delta
			}
		}
		switch cmd {
		case 0:
			st.stepInfo()
		case 1:
			st.stepRefresh(st.now)
		default:
			st.stepPeek()
		}
		if verifNative() {
			// the real clock moved a little between the harness's reading and the code's
			for i := 0; i < 2; i++ {
				if h := st.ccp.cache[verifIPs[i]]; h != nil {
					st.ents[i].lastAccess, st.ents[i].expires = h.lastAccessNano, h.expires.UnixNano()
				}
			}
		}
		// the Run loop hands these on before the next command
		st.ccp.toLookupIPs = nil
		st.ccp.toReturnInfo = nil
	}
	verifReach("history")
}

// verifNowEq: equality of two instants; exact symbolically, within 2 s on the real clock of a native replay.
func verifNowEq(a, b int64) bool {
	if !verifNative() {
		return a == b
	}
	d := a - b
	return d > -2000000000 && d < 2000000000
}

func VerifC12_Hist3() { verifC12Hist(3) }
func VerifC12_Hist4() { verifC12Hist(4) }
func VerifC12_Hist5() { verifC12Hist(5) }
func VerifC12_Hist6() { verifC12Hist(6) }

// --- the lookup dispatcher ---------------------------------------------------------------

type verifProvider struct {
	answers map[gostatsd.Source]*gostatsd.Instance
	err     error
	calls   int
	asked   []gostatsd.Source
}

func (p *verifProvider) Name() string { return "verif" }
func (p *verifProvider) Instance(ctx context.Context, ips ...gostatsd.Source) (map[gostatsd.Source]*gostatsd.Instance, error) {
	p.calls++
	p.asked = append(p.asked, ips...)
	return p.answers, p.err
}
func (p *verifProvider) MaxInstancesBatch() int { return 2 }
func (p *verifProvider) EstimatedTags() int     { return 0 }

// VerifC12_Lookup: doLookup emits exactly one answer per requested source, in order, carrying
// what the provider returned for it (nil if missing), whatever the provider outcome.
func VerifC12_Lookup() {
	n := nondetIntIn(1, 3)
	ips := []gostatsd.Source{"a", "b", "c"}[:n]
	p := &verifProvider{}
	switch nondetIntIn(0, 2) {
	case 0:
		p.answers = nil // nothing at all
	default:
		p.answers = map[gostatsd.Source]*gostatsd.Instance{}
	}
	insts := map[gostatsd.Source]*gostatsd.Instance{}
	for _, ip := range ips {
		if p.answers != nil && nondetBool() {
			in := &gostatsd.Instance{ID: "i-" + ip}
			p.answers[ip] = in
			insts[ip] = in
		}
	}
	if nondetBool() {
		p.err = errors.New("provider failed")
	}
	sink := make(chan gostatsd.InstanceInfo, 4)
	ld := &cloudProviderLookupDispatcher{cloudProvider: p, infoSink: sink, logger: logrus.StandardLogger()}
	ld.doLookup(context.Background(), ips)
	verifAssert(p.calls == 1 && len(p.asked) == n, "every submitted source is queried, in one call")
	verifAssert(len(sink) == n, "exactly one answer per source in the query")
	for _, ip := range ips {
		info := <-sink
		verifAssert(info.IP == ip, "answers come in request order")
		verifAssert(info.Instance == insts[ip], "the answer carries the provider's result for that source (nil if missing)")
	}
	verifReach("lookup")
}

func VerifC12_Twin() {
	VerifC12_Refresh()
	verifAssert(false, "twin-false")
}
