package cloudprovider

import (
	"context"
	"errors"
	"time"

	"github.com/sirupsen/logrus"
	"github.com/tilinna/clock"
	"golang.org/x/time/rate"

	"github.com/atlassian/gostatsd"
)

// VerifC12_Loop: the real Run loop (select over lookup / answer / refresh-ticker channels), the
// real lookup dispatcher goroutine (batching by size and by the 10 ms batch timer, rate limiter,
// doLookup) and the real handlers, wired together under the engine's scheduler. Harness: a
// provider with a symbolic batch limit whose every call answers fully, partially, with nothing
// or with an error (symbolic), the client (submitting 1..3 sources out of two, optionally
// letting the batch timer fire in between, reading the answers), the mock clock driving the
// refresh ticker and the wall clock.

type verifLoopProvider struct {
	hold bool          // calls wait at the gate (a slow provider)
	gate chan struct{} // closed by the harness to let them through
	outcomeSet []int
	outcomes   [5]int // drawn before any goroutine starts, so that a native replay consumes the values in the same order
	batch    int
	calls  int
	asked  map[gostatsd.Source]int
	tooBig bool
}

func (p *verifLoopProvider) Name() string           { return "verif" }
func (p *verifLoopProvider) MaxInstancesBatch() int { return p.batch }
func (p *verifLoopProvider) EstimatedTags() int     { return 0 }
func (p *verifLoopProvider) Instance(ctx context.Context, ips ...gostatsd.Source) (map[gostatsd.Source]*gostatsd.Instance, error) {
	p.calls++
	verifAssume(p.calls <= 5)
	if p.hold {
		<-p.gate
	}
	if len(ips) > p.batch || len(ips) == 0 {
		p.tooBig = true
	}
	for _, ip := range ips {
		p.asked[ip]++
	}
	out := map[gostatsd.Source]*gostatsd.Instance{}
	switch p.outcomeSet[p.outcomes[p.calls-1]] {
	case 0: // everything resolves
		for _, ip := range ips {
			out[ip] = &gostatsd.Instance{ID: "i-" + ip}
		}
		return out, nil
	case 1: // only the first source resolves
		out[ips[0]] = &gostatsd.Instance{ID: "i-" + ips[0]}
		return out, nil
	case 2: // nothing
		return out, nil
	case 3: // an error and no data
		return nil, errors.New("throttled")
	}
	// an error with partial data
	out[ips[0]] = &gostatsd.Instance{ID: "i-" + ips[0]}
	return out, errors.New("partial failure")
}

// verifExpectNoAnswer: nobody is waiting to hand the client another answer.
func verifExpectNoAnswer(ccp *CachedCloudProvider, msg string) {
	timeout := time.After(time.Second)
	go func() {
		verifSettle()
		verifAdvanceTime()
	}()
	select {
	case <-ccp.InfoSource():
		verifAssert(false, msg)
	case <-timeout:
	}
}

// quick: 1..2 submissions, provider outcomes {all resolve, nothing, error with partial data};
// thorough: 1..3 submissions, all five outcomes
func VerifC12_Loop()     { verifC12Loop(2, []int{0, 2, 4}) }
func VerifC12_LoopFull() { verifC12Loop(3, []int{0, 1, 2, 3, 4}) }

func verifC12Loop(maxN int, outcomeSet []int) {
	verifTimersManual()
	now := verifT0
	verifSetNow(&now)
	// the mock clock (refresh ticker) starts at the wall clock's now: verifT0 symbolically, the
	// real time natively, where handleInstanceInfo stamps entries with the real time.Now()
	t0 := time.Now().UnixNano()
	mock := clock.NewMock(time.Unix(0, t0))
	ctx, cancel := context.WithCancel(clock.Context(context.Background(), mock))
	defer cancel()
	p := &verifLoopProvider{batch: nondetIntIn(1, 2), asked: map[gostatsd.Source]int{}, outcomeSet: outcomeSet}
	for i := range p.outcomes {
		p.outcomes[i] = nondetIntIn(0, len(outcomeSet)-1) // mapped through outcomeSet when (and only if) the call happens
	}
	// the client's script, drawn up front as well
	n := nondetIntIn(1, maxN)
	var scriptIP [3]int
	var scriptAdv [3]bool
	for i := 0; i < n; i++ {
		scriptIP[i], scriptAdv[i] = nondetIntIn(0, 1), nondetBool()
	}
	short, long := 30*time.Second, 5*time.Minute
	pick := func() time.Duration {
		if nondetBool() {
			return short
		}
		return long
	}
	opts := gostatsd.CacheOptions{CacheRefreshPeriod: time.Minute, CacheEvictAfterIdlePeriod: 10 * time.Minute, CacheTTL: pick(), CacheNegativeTTL: pick()}
	if nondetBool() {
		opts.CacheEvictAfterIdlePeriod = short
	}
	ccp := NewCachedCloudProvider(logrus.StandardLogger(), rate.NewLimiter(rate.Inf, 1), p, opts)
	go ccp.Run(ctx)
	verifSettle()

	// --- the client submits n sources -----------------------------------------------------
	submitted := map[gostatsd.Source]int{}
	for i := 0; i < n; i++ {
		ip := verifIPs[scriptIP[i]]
		ccp.IpSink() <- ip
		submitted[ip]++
		if scriptAdv[i] {
			verifSettle()
			verifAdvanceTime() // the 10 ms batch timer fires before the next submission
			verifSettle()
		}
	}
	verifSettle()
	verifAdvanceTime()
	verifSettle()
	// every submission is answered exactly once; the cache keeps the last successful answer
	answers := map[gostatsd.Source]int{}
	resolved := map[gostatsd.Source]bool{}
	for k := 0; k < n; k++ {
		info := <-ccp.InfoSource()
		answers[info.IP]++
		if info.Instance != nil {
			verifAssert(info.Instance.ID == "i-"+info.IP, "an answer carries the instance of its own source")
			resolved[info.IP] = true
		}
		verifSettle()
	}
	verifExpectNoAnswer(ccp, "more answers than submitted sources")
	for _, ip := range verifIPs {
		verifAssert(answers[ip] == submitted[ip], "every submitted source is answered exactly once per submission")
		verifAssert(p.asked[ip] == submitted[ip], "every submitted source is queried")
	}
	verifAssert(!p.tooBig, "a provider call carries between 1 and max-batch sources")
	check := func(stage string) (pos, neg uint64) {
		for _, ip := range verifIPs {
			h := ccp.cache[ip]
			if h == nil {
				continue
			}
			if h.instance != nil {
				pos++
			} else {
				neg++
			}
			verifAssert((h.instance != nil) == resolved[ip], "a source is served as resolved exactly when some answer so far resolved it (a failed or empty later answer keeps the instance)")
		}
		verifAssert(ccp.statsCachePositive == pos && ccp.statsCacheNegative == neg, "cache-size gauges equal the numbers of positive and negative entries")
		return
	}
	check("after lookups")
	for _, ip := range verifIPs {
		_, cached := ccp.cache[ip]
		verifAssert(cached == (submitted[ip] > 0), "exactly the submitted sources are cached")
	}

	// --- one refresh tick a minute later ------------------------------------------------------
	// nobody read the cache: last use = creation = t0 for every entry
	expired := map[gostatsd.Source]bool{}
	evicted := map[gostatsd.Source]bool{}
	for _, ip := range verifIPs {
		if h := ccp.cache[ip]; h != nil {
			// the expiry of an entry was set by its latest answer: TTL after a successful one,
			// negative TTL after a failed or empty one (also when the old instance is kept)
			if !verifNative() {
				verifAssert(h.expires.UnixNano() == verifT0+int64(opts.CacheTTL) || h.expires.UnixNano() == verifT0+int64(opts.CacheNegativeTTL), "an entry expires one (negative) TTL after its latest answer")
			}
			// (natively the wall clock is the real one while the ticker's is the mock's: the
			// expectations are computed from the entry itself so that they hold in both worlds)
			tick := t0 + int64(time.Minute)
			if tick-h.lastAccessNano > int64(opts.CacheEvictAfterIdlePeriod) {
				evicted[ip] = true
			} else if tick > h.expires.UnixNano() {
				expired[ip] = true
			}
		}
	}
	now += int64(time.Minute)
	mock.Add(time.Minute)
	verifSettle()
	verifAdvanceTime() // batch timer of the refresh queries
	verifSettle()
	verifAdvanceTime()
	verifSettle()
	refreshed := 0
	for _, ip := range verifIPs {
		if expired[ip] {
			refreshed++
		}
	}
	before := map[gostatsd.Source]int{}
	for _, ip := range verifIPs {
		before[ip] = p.asked[ip]
	}
	for k := 0; k < refreshed; k++ {
		info := <-ccp.InfoSource()
		verifAssert(expired[info.IP], "a refresh answer is for an entry past its TTL")
		if info.Instance != nil {
			resolved[info.IP] = true
		}
		verifSettle()
		verifReach("refreshed")
	}
	verifExpectNoAnswer(ccp, "more refresh answers than entries past their TTL")
	for _, ip := range verifIPs {
		_, cached := ccp.cache[ip]
		if evicted[ip] {
			verifAssert(!cached, "an entry unused for longer than the idle period is evicted at the refresh tick")
			resolved[ip] = false
			verifReach("evicted")
		} else {
			verifAssert(cached == (submitted[ip] > 0), "other entries stay cached")
		}
		want := submitted[ip]
		if expired[ip] {
			want++
		}
		verifAssert(p.asked[ip] == want, "an entry past its TTL is queried again exactly once, others are not")
	}
	check("after refresh")
	verifReach("loop-done")
}

func VerifC12_LoopTwin() {
	verifC12Loop(1, []int{0, 3})
	verifAssert(false, "twin-false")
}


// VerifC12_LoopBusy: a refresh tick arrives while the queries started by the previous tick are
// still on their way (the provider is slow: its calls wait at a gate). Two cached sources, TTLs
// of 30 s, idle period 90 s, refresh period 1 min: at the first tick both entries are past their
// TTL and are queried again, at the second tick (provider still busy) both have been unused for
// longer than the idle period and must be gone from the cache at once; when the provider
// finally answers, each query is answered exactly once.
func VerifC12_LoopBusy() {
	verifTimersManual()
	now := verifT0
	verifSetNow(&now)
	mock := clock.NewMock(time.Unix(0, time.Now().UnixNano())) // see verifC12Loop
	ctx, cancel := context.WithCancel(clock.Context(context.Background(), mock))
	defer cancel()
	p := &verifLoopProvider{batch: nondetIntIn(1, 2), asked: map[gostatsd.Source]int{}, outcomeSet: []int{0, 2, 3}, gate: make(chan struct{})}
	for i := range p.outcomes {
		p.outcomes[i] = nondetIntIn(0, 2)
	}
	opts := gostatsd.CacheOptions{CacheRefreshPeriod: time.Minute, CacheEvictAfterIdlePeriod: 90 * time.Second, CacheTTL: 30 * time.Second, CacheNegativeTTL: 30 * time.Second}
	ccp := NewCachedCloudProvider(logrus.StandardLogger(), rate.NewLimiter(rate.Inf, 1), p, opts)
	go ccp.Run(ctx)
	verifSettle()
	for _, ip := range verifIPs {
		ccp.IpSink() <- ip
		verifSettle()
		verifAdvanceTime()
		verifSettle()
	}
	for k := 0; k < 2; k++ {
		<-ccp.InfoSource()
		verifSettle()
	}
	verifAssert(len(ccp.cache) == 2, "both sources are cached after their first answers")
	// first tick: both entries are past their TTL, the provider becomes slow
	p.hold = true
	now += int64(time.Minute)
	mock.Add(time.Minute)
	verifSettle()
	verifAdvanceTime()
	verifSettle()
	verifAssert(len(ccp.cache) == 2, "an entry unused for less than the idle period stays cached at a refresh tick")
	// second tick, queries of the first one still under way
	now += int64(time.Minute)
	mock.Add(time.Minute)
	verifSettle()
	verifAssert(len(ccp.cache) == 0, "entries unused for longer than the idle period are evicted at the next refresh tick, also while earlier refresh queries are still under way")
	verifReach("evicted-while-busy")
	// the provider answers at last
	p.hold = false
	close(p.gate)
	verifSettle()
	verifAdvanceTime()
	verifSettle()
	for k := 0; k < 2; k++ {
		<-ccp.InfoSource()
		verifSettle()
		verifAdvanceTime()
		verifSettle()
	}
	verifExpectNoAnswer(ccp, "more refresh answers than refresh queries")
	for _, ip := range verifIPs {
		verifAssert(p.asked[ip] == 2, "an entry past its TTL is queried again exactly once")
	}
	verifReach("busy-done")
}
