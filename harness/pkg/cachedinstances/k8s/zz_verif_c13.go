package k8s

import (
	"regexp"

	"github.com/sirupsen/logrus"
	core_v1 "k8s.io/api/core/v1"
	meta_v1 "k8s.io/apimachinery/pkg/apis/meta/v1"
	"k8s.io/client-go/tools/cache"

	"github.com/atlassian/gostatsd"
)

// C13: Kubernetes lookups reflect the current pod holding an IP.
//
// The informer is replaced by a harness model: a store of pods whose IP index is computed by the
// REAL podByIpIndexFunc, updated BEFORE the event handler runs (the informer's contract). The
// real cacheInvalidationHandler, Peek / instanceFromCache / instanceFromInformer and
// getTagNameFromRegex (with a concrete label regex executed natively) are exercised over a
// history of symbolic pod events and lookups.

type verifIndexer struct {
	cache.Indexer
	pods []*core_v1.Pod
}

func (x *verifIndexer) ByIndex(indexName, key string) ([]interface{}, error) {
	var out []interface{}
	for _, p := range x.pods {
		keys, _ := podByIpIndexFunc(p)
		for _, k := range keys {
			if k == key {
				out = append(out, p)
			}
		}
	}
	return out, nil
}

type verifInformer struct {
	cache.SharedIndexInformer
	idx *verifIndexer
}

func (i *verifInformer) GetIndexer() cache.Indexer { return i.idx }

var verifPodIPs = []string{"", "10.0.0.1", "10.0.0.2"}
var verifPhases = []core_v1.PodPhase{core_v1.PodPending, core_v1.PodRunning, core_v1.PodSucceeded, core_v1.PodFailed}

// verifMkPod builds a version of pod `name` with symbolic phase, host-network flag, IP, deletion
// mark and label value.
func verifMkPod(name string, annotations bool) *core_v1.Pod {
	p := &core_v1.Pod{}
	p.Namespace = "ns"
	p.Name = name
	p.Status.Phase = verifPhases[nondetIntIn(0, 3)]
	p.Spec.HostNetwork = nondetBool()
	p.Status.PodIP = verifPodIPs[nondetIntIn(0, 2)]
	p.Status.HostIP = "192.168.0.1"
	if nondetBool() {
		p.DeletionTimestamp = &meta_v1.Time{}
	}
	// the value that is symbolic is the one the configured regex looks at
	ver, aver := "v1", "a1"
	if nondetBool() {
		if annotations {
			aver = "a2"
		} else {
			ver = "v2"
		}
	}
	p.Labels = map[string]string{"app.kubernetes.io/name": ver, "ignored": "x", "team": ver, "team-x": "y", "other": "lo"}
	p.Annotations = map[string]string{"gostatsd.atlassian.com/env": aver, "other": "z", "team": "at"}
	return p
}

// regex configurations: named group that always captures, named group that may capture
// nothing (then the whole key names the tag), no named group, annotations instead of labels
type verifRegexCfg struct {
	label, annotation *regexp.Regexp
	want              func(p *core_v1.Pod) []string
}

var verifRegexCfgs = []verifRegexCfg{
	{label: regexp.MustCompile(`^app\.kubernetes\.io/(?P<tag>name)$`),
		want: func(p *core_v1.Pod) []string { return []string{"name:" + p.Labels["app.kubernetes.io/name"]} }},
	{label: regexp.MustCompile(`^team(-(?P<tag>.+))?$`),
		want: func(p *core_v1.Pod) []string { return []string{"team:" + p.Labels["team"], "x:" + p.Labels["team-x"]} }},
	{label: regexp.MustCompile(`^app\.kubernetes\.io/name$`),
		want: func(p *core_v1.Pod) []string {
			return []string{"app.kubernetes.io/name:" + p.Labels["app.kubernetes.io/name"]}
		}},
	{annotation: regexp.MustCompile(`^gostatsd\.atlassian\.com/(?P<tag>.+)$`),
		want: func(p *core_v1.Pod) []string { return []string{"env:" + p.Annotations["gostatsd.atlassian.com/env"]} }},
	// both regexes, disagreeing on keys that occur as a label AND as an annotation ("team", "other"):
	// labels are judged by the label regex only, annotations by the annotation regex only
	{label: regexp.MustCompile(`^(?P<tag>team)$`), annotation: regexp.MustCompile(`^o(?P<tag>ther)$`),
		want: func(p *core_v1.Pod) []string { return []string{"team:" + p.Labels["team"], "ther:" + p.Annotations["other"]} }},
}

func verifSameTags(got gostatsd.Tags, want []string) bool {
	if len(got) != len(want) {
		return false
	}
	for _, w := range want {
		n := 0
		for _, g := range got {
			if g == w {
				n++
			}
		}
		if n != 1 {
			return false
		}
	}
	return true
}

// spec: the pod (version) currently holding ip: running or pending, not host network, not being deleted
func verifHolder(store []*core_v1.Pod, ip string) *core_v1.Pod {
	for _, p := range store {
		if p.Status.PodIP == ip && ip != "" && p.Status.Phase != core_v1.PodSucceeded && p.Status.Phase != core_v1.PodFailed &&
			p.DeletionTimestamp == nil && !p.Spec.HostNetwork && p.Status.PodIP != p.Status.HostIP {
			return p
		}
	}
	return nil
}

func verifC13(steps int, script []int) { verifC13Cfg(steps, script, 0) }

func verifC13Cfg(steps int, script []int, cfgN int) {
	idx := &verifIndexer{}
	cfg := verifRegexCfgs[cfgN]
	prov := &Provider{
		logger:          logrus.StandardLogger(),
		podsInf:         &verifInformer{idx: idx},
		labelRegex:      cfg.label,
		annotationRegex: cfg.annotation,
		ipSinkSource:   make(chan gostatsd.Source),
		infoSinkSource: make(chan gostatsd.InstanceInfo),
		cache:          make(map[gostatsd.Source]*gostatsd.Instance),
	}
	h := cacheInvalidationHandler{p: prov}
	names := []string{"pod-a", "pod-b"}
	for s := 0; s < steps; s++ {
		cmd := 0
		if script != nil {
			cmd = script[s]
		} else {
			cmd = nondetIntIn(0, 3)
		}
		pi := nondetIntIn(0, 1)
		name := names[pi]
		pos := -1
		for i, p := range idx.pods {
			if p.Name == name {
				pos = i
			}
		}
		switch cmd {
		case 0: // add (or update when the pod already exists)
			np := verifMkPod(name, cfg.annotation != nil)
			// pods have distinct IPs (the property's quantifier)
			other := verifHolder(idx.pods, np.Status.PodIP)
			verifAssume(other == nil || other.Name == name)
			if pos < 0 {
				idx.pods = append(idx.pods, np)
				h.OnAdd(np)
				verifReach("add")
			} else {
				old := idx.pods[pos]
				idx.pods[pos] = np
				h.OnUpdate(old, np)
				verifReach("update")
			}
		case 1: // delete
			if pos >= 0 {
				old := idx.pods[pos]
				idx.pods = append(idx.pods[:pos], idx.pods[pos+1:]...)
				if nondetBool() {
					h.OnDelete(old)
				} else {
					h.OnDelete(cache.DeletedFinalStateUnknown{Key: "ns/" + name, Obj: old})
				}
				verifReach("delete")
			}
		default: // lookup
			ip := verifPodIPs[nondetIntIn(1, 2)]
			inst, hit := prov.Peek(gostatsd.Source(ip))
			verifAssert(hit, "a k8s lookup is always answered")
			want := verifHolder(idx.pods, ip)
			if want == nil {
				verifAssert(inst == nil, "a lookup answers nothing when no running, non-host-network pod holds the IP")
				verifReach("lookup-none")
			} else {
				verifAssert(inst != nil, "a lookup finds the pod currently holding the IP")
				if inst != nil {
					verifAssert(inst.ID == gostatsd.Source("ns/"+want.Name), "the identity is namespace/name of the pod currently holding the IP")
					verifAssert(verifSameTags(inst.Tags, cfg.want(want)),
						"tags come from the CURRENT version of the pod's labels, named by the regex's tag group, only for matching keys")
				}
				verifReach("lookup-pod")
			}
		}
	}
}

func VerifC13_2() { verifC13(2, nil) }
func VerifC13_3() { verifC13(3, nil) }

// scripted histories (the command kinds are fixed, everything else is symbolic):
// add, lookup, update-or-add, lookup  /  add, lookup, delete, lookup  /  add, add, lookup, lookup
func VerifC13_AddLookUpdLook() { verifC13(4, []int{0, 2, 0, 2}) }
func VerifC13_AddLookDelLook() { verifC13(4, []int{0, 2, 1, 2}) }

// the other regex configurations (see verifRegexCfgs), symbolic choice
func VerifC13_Regexes() { verifC13Cfg(2, []int{0, 2}, nondetIntIn(1, 4)) }
func VerifC13_RegexesUpd() { verifC13Cfg(4, []int{0, 2, 0, 2}, nondetIntIn(1, 3)) }
func VerifC13_RegexesUpdBoth() { verifC13Cfg(4, []int{0, 2, 0, 2}, 4) }

func VerifC13_Twin() {
	verifC13(2, nil)
	verifAssert(false, "twin-false")
}
