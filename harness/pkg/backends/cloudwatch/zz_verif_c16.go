package cloudwatch

import (
	"context"
	"errors"

	"github.com/aws/aws-sdk-go-v2/service/cloudwatch"

	"github.com/atlassian/gostatsd"
)

// VerifC16_Cloudwatch: the real SendMetricsAsync (buildMetricData, the 20-per-call loop in its
// goroutine) against a harness CloudwatchClient whose every PutMetricData call succeeds or
// fails by symbolic choice, for 0..3 gauge series with all timer sub-metrics of one timer
// (so that one flush needs 0, 1 or 2 calls): the callback is invoked exactly once, carries a
// non-nil error iff some call failed, every datum is sent exactly once and no call carries
// more than 20 data.
type verifCWClient struct {
	calls, failed, data int
	tooBig              bool
	cancel              context.CancelFunc // when set: a call may coincide with shutdown
	cancelled           bool
}

func (c *verifCWClient) PutMetricData(ctx context.Context, in *cloudwatch.PutMetricDataInput, _ ...func(*cloudwatch.Options)) (*cloudwatch.PutMetricDataOutput, error) {
	c.calls++
	if len(in.MetricData) > 20 || len(in.MetricData) == 0 {
		c.tooBig = true
	}
	if c.cancel != nil && !c.cancelled && nondetBool() {
		c.cancelled = true
		c.cancel()
	}
	if nondetBool() {
		c.failed++
		return nil, errors.New("throttled")
	}
	c.data += len(in.MetricData)
	return &cloudwatch.PutMetricDataOutput{}, nil
}

func VerifC16_Cloudwatch() {
	ctx, cancel := context.WithCancel(context.Background())
	defer cancel()
	api := &verifCWClient{cancel: cancel}
	c := &Client{namespace: "StatsD", cloudwatch: api}
	mm := gostatsd.NewMetricMap(false)
	ng := nondetIntIn(0, 3)
	names := []string{"g1", "g2", "g3"}
	for i := 0; i < ng; i++ {
		mm.Gauges[names[i]] = map[string]gostatsd.Gauge{"": {Value: 1}}
	}
	nt := nondetIntIn(0, 2)
	tnames := []string{"t1", "t2"}
	for i := 0; i < nt; i++ {
		// a timer yields 9 data (lower, upper, count, count_ps, mean, median, std, sum, sum_squares)
		mm.Timers[tnames[i]] = map[string]gostatsd.Timer{"": {Count: 1, Values: []float64{1}}}
	}
	want := len(c.buildMetricData(mm))
	calls := 0
	var got []error
	c.SendMetricsAsync(ctx, mm, func(errs []error) {
		calls++
		got = errs
	})
	verifSettle()
	verifAssert(calls == 1, "cloudwatch: the completion callback is invoked exactly once")
	nonNil := 0
	for _, e := range got {
		if e != nil {
			nonNil++
		}
	}
	if !api.cancelled {
		verifAssert(nonNil == api.failed, "cloudwatch: one error per failed call, none otherwise")
	} else {
		verifAssert(api.failed == 0 || nonNil > 0, "cloudwatch: a failed call is reported also when the daemon is shutting down")
		verifReach("cancelled")
	}
	verifAssert(!api.tooBig, "cloudwatch: every call carries 1..20 data")
	if api.failed == 0 && !api.cancelled {
		verifAssert(api.data == want, "cloudwatch: every datum is sent exactly once")
		verifReach("clean")
	} else {
		verifReach("failed")
	}
	if api.calls >= 2 {
		verifReach("two-calls")
	}
	if want == 0 {
		verifAssert(api.calls == 0, "cloudwatch: nothing is sent for an empty flush")
		verifReach("empty")
	}
}
