package cloudwatch

import (
	"github.com/atlassian/gostatsd"
)

func VerifC04_Cloudwatch() {
	c := &Client{namespace: "StatsD"}
	if nondetBool() {
		c.disabledSubtypes = gostatsd.TimerSubtypes{Lower: true, Upper: true, Count: true, CountPerSecond: true, Mean: true, Median: true, StdDev: true, Sum: true, SumSquares: true}
	}
	verifAggregates(func(mm *gostatsd.MetricMap) {
		data := c.buildMetricData(mm)
		verifAssert(len(data) >= 5, "cloudwatch: every series yields data")
		// the 20-per-call loop of SendMetricsAsync
		for i := 0; i < len(data); i += 20 {
			end := i + 20
			if end > len(data) {
				end = len(data)
			}
			verifAssert(end-i >= 1 && end-i <= 20, "cloudwatch: at most 20 data per call")
		}
	})
}
