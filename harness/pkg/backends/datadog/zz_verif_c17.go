package datadog

import (
	"math"
	"time"

	"github.com/atlassian/gostatsd"
)

// VerifC17_DatadogBatches: k counters and a symbolic batch size: the emitted batches together hold
// every sub-metric exactly once (rate and count per counter), with name, host and tags.
func VerifC17_DatadogBatches() {
	d := &Client{metricsPerBatch: uint(nondetIntIn(1, 60)), flushInterval: 10 * time.Second}
	k := nondetIntIn(0, 4)
	mm := gostatsd.NewMetricMap(false)
	names := []string{"a", "b", "c", "d"}
	for i := 0; i < 4; i++ {
		if i < k {
			mm.Counters[names[i]] = map[string]gostatsd.Counter{"": {Value: int64(i + 1), PerSecond: 0.5, Source: "h", Tags: gostatsd.Tags{"t:1"}}}
		}
	}
	seen := map[string]int{}
	var batches []*timeSeries
	d.processMetrics(100, mm, func(ts *timeSeries) {
		batches = append(batches, ts) // SendMetricsAsync serialises a batch after it was handed over
	})
	for _, ts := range batches {
		for _, m := range ts.Series {
			seen[m.Metric]++
			verifAssert(m.Host == "h" && len(m.Tags) == 1 && m.Tags[0] == "t:1", "datadog: host and tags carried on every series")
		}
	}
	for i := 0; i < 4; i++ {
		want := 0
		if i < k {
			want = 1
		}
		verifAssert(seen[names[i]] == want && seen[names[i]+".count"] == want, "datadog: every sub-metric of every series exactly once across the batches")
	}
	verifAssert(len(seen) == 2*k, "datadog: nothing else is emitted")
	verifReach("batched")
}

// VerifC17_DatadogHistogram: a histogram timer with three buckets whose tag slice has spare
// capacity (as slices grown by append in the lexer and the tag stage have): every bucket is
// emitted exactly once, as <name>.histogram, with the timer's tags plus ITS le: tag and ITS
// count - also after all batches have been built (the series must not share tag storage).
func VerifC17_DatadogHistogram() {
	d := &Client{metricsPerBatch: uint(nondetIntIn(1, 5)), flushInterval: 10 * time.Second}
	c1, c2, c3 := nondetIntIn(0, 1000), nondetIntIn(0, 1000), nondetIntIn(0, 1000)
	tags := make(gostatsd.Tags, 1, 4)
	tags[0] = "t:1"
	mm := gostatsd.NewMetricMap(false)
	mm.Timers["x"] = map[string]gostatsd.Timer{"": {Source: "h", Tags: tags, Histogram: map[gostatsd.HistogramThreshold]int{
		10: c1, 30: c2, gostatsd.HistogramThreshold(math.Inf(1)): c3}}}
	var batches []*timeSeries
	d.processMetrics(100, mm, func(ts *timeSeries) {
		batches = append(batches, ts)
	})
	want := map[string]int{"le:10": c1, "le:30": c2, "le:+Inf": c3}
	seen := map[string]int{}
	n := 0
	for _, ts := range batches {
		for _, m := range ts.Series {
			n++
			verifAssert(m.Metric == "x.histogram" && m.Host == "h" && len(m.Tags) == 2 && m.Tags[0] == "t:1", "datadog histogram: name, host and the timer's tags on every bucket series")
			if len(m.Tags) == 2 {
				seen[m.Tags[1]]++
				w, ok := want[m.Tags[1]]
				verifAssert(ok && len(m.Points) == 1 && m.Points[0][1] == float64(w), "datadog histogram: a bucket series carries its own le: tag and its own count")
			}
		}
	}
	verifAssert(n == 3 && seen["le:10"] == 1 && seen["le:30"] == 1 && seen["le:+Inf"] == 1, "datadog histogram: every bucket exactly once across the batches")
	verifReach("histogram")
}
