package datadog

import (
	"time"

	"github.com/atlassian/gostatsd"
)

// VerifC17_DatadogBatches: k counters and a symbolic batch size: the emitted batches together hold
// every sub-metric exactly once (rate and count per counter), with name, host and tags.
func VerifC17_DatadogBatches() {
	d := &Client{metricsPerBatch: uint(nondetIntIn(1, 60)), flushInterval: 10 * time.Second}
	k := nondetIntIn(0, 4)
	mm := gostatsd.NewMetricMap(false)
	names := []string{"a", "b", "c", "d"}
	for i := 0; i < 4; i++ {
		if i < k {
			mm.Counters[names[i]] = map[string]gostatsd.Counter{"": {Value: int64(i + 1), PerSecond: 0.5, Source: "h", Tags: gostatsd.Tags{"t:1"}}}
		}
	}
	seen := map[string]int{}
	var batches []*timeSeries
	d.processMetrics(100, mm, func(ts *timeSeries) {
		batches = append(batches, ts) // SendMetricsAsync serialises a batch after it was handed over
	})
	for _, ts := range batches {
		for _, m := range ts.Series {
			seen[m.Metric]++
			verifAssert(m.Host == "h" && len(m.Tags) == 1 && m.Tags[0] == "t:1", "datadog: host and tags carried on every series")
		}
	}
	for i := 0; i < 4; i++ {
		want := 0
		if i < k {
			want = 1
		}
		verifAssert(seen[names[i]] == want && seen[names[i]+".count"] == want, "datadog: every sub-metric of every series exactly once across the batches")
	}
	verifAssert(len(seen) == 2*k, "datadog: nothing else is emitted")
	verifReach("batched")
}
