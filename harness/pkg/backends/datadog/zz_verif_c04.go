package datadog

import (
	"time"
	"github.com/atlassian/gostatsd"
)

func VerifC04_Datadog() {
	batch := uint(nondetIntIn(1, 40))
	d := &Client{metricsPerBatch: batch, flushInterval: 10 * time.Second}
	if nondetBool() {
		d.disabledSubtypes = gostatsd.TimerSubtypes{Lower: true, Upper: true, Count: true, CountPerSecond: true, Mean: true, Median: true, StdDev: true, Sum: true, SumSquares: true}
	}
	verifAggregates(func(mm *gostatsd.MetricMap) {
		total := 0
		d.processMetrics(100, mm, func(ts *timeSeries) {
			total += len(ts.Series)
		})
		verifAssert(total >= 6, "datadog: every series is emitted")
	})
}
