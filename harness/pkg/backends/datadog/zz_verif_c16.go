package datadog

import (
	"bytes"
	"context"
	"net/http"
	"sync/atomic"
	"time"

	"github.com/sirupsen/logrus"
	"github.com/tilinna/clock"

	"github.com/atlassian/gostatsd"
)

// VerifC16_Datadog: the real SendMetricsAsync (processMetrics, goroutine per batch, collector),
// postMetrics / post retry loop (real exponential back-off, symbolic clock) and constructPost
// (JSON encoder stubbed) against a symbolic per-attempt fault script, 1..2 batches, 0..2 free
// request buffers, shutdown before or during the flush.
func verifC16Datadog(maxAttempts int, inflightCancel bool) {
	clk := verifNewStepClock()
	up := &verifC16Upstream{max: maxAttempts, okStatus: 202, clk: clk, window: 30 * time.Second}
	ctx, cancel := context.WithCancel(clock.Context(context.Background(), clk))
	defer cancel()
	if inflightCancel && nondetBool() {
		up.cancel = cancel
	}
	nbuf := nondetIntIn(0, 2)
	d := &Client{
		logger:                logrus.StandardLogger(),
		apiKey:                "key",
		apiEndpoint:           "http://datadog",
		userAgent:             "gostatsd",
		maxRequestElapsedTime: 30 * time.Second,
		client:                &http.Client{Transport: up},
		metricsPerBatch:       uint(nondetIntIn(1, 2)),
		metricsBufferSem:      make(chan *bytes.Buffer, 2),
		flushInterval:         10 * time.Second,
	}
	for i := 0; i < nbuf; i++ {
		d.metricsBufferSem <- &bytes.Buffer{}
	}
	mm := gostatsd.NewMetricMap(false)
	mm.Gauges["g"] = map[string]gostatsd.Gauge{"": {Value: 1}}
	if nondetBool() {
		mm.Gauges["h"] = map[string]gostatsd.Gauge{"": {Value: 2}}
	}
	res := &verifC16Result{}
	if nondetBool() {
		up.cancelled = true
		cancel()
	}
	verifAssume(nbuf > 0 || up.cancelled)
	d.SendMetricsAsync(ctx, mm, res.cb)
	verifSettle()
	verifC16Verdict(up, res, "datadog")
	verifAssert(len(up.batchOK) <= int(atomic.LoadUint64(&d.batchesCreated)), "datadog: every attempt of a batch carries the same body")
	verifAssert(len(d.metricsBufferSem) == nbuf || up.cancelled, "datadog: every request buffer is back in the pool after the flush")
}

// quick: up to 2 attempts, shutdown before the flush or while an attempt is in flight
func VerifC16_Datadog()     { verifC16Datadog(2, true) }
func VerifC16_DatadogFull() { verifC16Datadog(3, true) }

func VerifC16_DatadogTwin() {
	verifC16Datadog(1, false)
	verifAssert(false, "twin-false")
}
