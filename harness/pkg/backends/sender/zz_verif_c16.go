package sender

import (
	"bytes"
	"context"
	"errors"
	"net"
	"sync"
	"time"

	"github.com/sirupsen/logrus"
)

// C16 (socket backends): each flush request handed to the sender is answered by exactly one
// completion callback under any transport fault script.

type verifConn struct {
	env *verifEnv
}

func (c *verifConn) Read(b []byte) (int, error) { return 0, errors.New("unused") }
func (c *verifConn) Write(b []byte) (int, error) {
	c.env.writes++
	verifAssume(c.env.writes <= c.env.maxIO)
	if nondetBool() {
		c.env.writeFailed = true
		return 0, errors.New("broken pipe")
	}
	return len(b), nil
}
func (c *verifConn) Close() error                       { return nil }
func (c *verifConn) LocalAddr() net.Addr                { return nil }
func (c *verifConn) RemoteAddr() net.Addr               { return nil }
func (c *verifConn) SetDeadline(t time.Time) error      { return nil }
func (c *verifConn) SetReadDeadline(t time.Time) error  { return nil }
func (c *verifConn) SetWriteDeadline(t time.Time) error { return nil }

type verifEnv struct {
	connects    int
	writes      int
	maxIO       int
	connFailed  bool
	writeFailed bool
}

type verifStreamRec struct {
	calls int
	errs  []error
}

func verifC16(nStreams, nBufs, maxIO int) {
	env := &verifEnv{maxIO: maxIO}
	s := &Sender{
		Logger: logrus.StandardLogger(),
		Sink:   make(chan Stream, 4),
		BufPool: sync.Pool{New: func() interface{} { return &bytes.Buffer{} }},
	}
	s.ConnFactory = func() (net.Conn, error) {
		env.connects++
		verifAssume(env.connects <= maxIO)
		if nondetBool() {
			env.connFailed = true
			return nil, errors.New("connection refused")
		}
		return &verifConn{env: env}, nil
	}
	ctx, cancel := context.WithCancel(context.Background())
	recs := make([]*verifStreamRec, nStreams)
	cancels := make([]context.CancelFunc, nStreams)
	cancelled := make([]bool, nStreams)
	for i := 0; i < nStreams; i++ {
		rec := &verifStreamRec{}
		recs[i] = rec
		sctx, scancel := context.WithCancel(ctx)
		cancels[i] = scancel
		bufs := make(chan *bytes.Buffer, nBufs)
		for j := 0; j < nBufs; j++ {
			b := s.GetBuffer()
			b.WriteString("payload\n")
			bufs <- b
		}
		close(bufs) // Graphite hands over a pre-filled, closed buffer channel
		if nondetBool() {
			// the flush request is cancelled before the sender gets to it
			scancel()
			cancelled[i] = true
		}
		s.Sink <- Stream{Ctx: sctx, Cb: func(errs []error) {
			rec.calls++
			rec.errs = errs
		}, Buf: bufs}
	}
	go s.Run(ctx)
	verifYield()
	// shutdown
	cancel()
	verifYield()
	for i, rec := range recs {
		verifAssert(rec.calls >= 1, "a flush request handed to the sender is never answered (no callback)")
		verifAssert(rec.calls <= 1, "a flush request handed to the sender is answered more than once")
		_ = i
	}
	if !env.connFailed && !env.writeFailed {
		for i, rec := range recs {
			if !cancelled[i] {
				verifAssert(len(rec.errs) == 0, "no error is reported when the transport never failed and the request was not cancelled")
			}
		}
		verifReach("clean")
	} else {
		verifReach("faulty")
	}
	for i := range cancels {
		cancels[i]()
	}
}

func VerifC16_1_1() { verifC16(1, 1, 3) }
func VerifC16_1_2() { verifC16(1, 2, 4) }
func VerifC16_2_1() { verifC16(2, 1, 4) }
func VerifC16_2_2() { verifC16(2, 2, 5) }

func VerifC16_Twin() {
	verifC16(1, 1, 3)
	verifAssert(false, "twin-false")
}
