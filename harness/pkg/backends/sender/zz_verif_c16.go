package sender

import (
	"bytes"
	"context"
	"errors"
	"net"
	"sync"
	"time"

	"github.com/sirupsen/logrus"
)

// C16 (socket backends): each flush request handed to the sender is answered by exactly one
// completion callback under any transport fault script.

type verifConn struct {
	env *verifEnv
}

func (c *verifConn) Read(b []byte) (int, error) { return 0, errors.New("unused") }
func (c *verifConn) Write(b []byte) (int, error) {
	c.env.writes++
	if !c.env.noWriteFaults {
		verifAssume(c.env.writes <= c.env.maxIO)
		if nondetBool() {
			c.env.writeFailed = true
			return 0, errors.New("broken pipe")
		}
	}
	if len(b) >= 2 && b[0] == 's' {
		c.env.okWrites[int(b[1])]++
	}
	return len(b), nil
}
func (c *verifConn) Close() error                       { return nil }
func (c *verifConn) LocalAddr() net.Addr                { return nil }
func (c *verifConn) RemoteAddr() net.Addr               { return nil }
func (c *verifConn) SetDeadline(t time.Time) error      { return nil }
func (c *verifConn) SetReadDeadline(t time.Time) error  { return nil }
func (c *verifConn) SetWriteDeadline(t time.Time) error { return nil }

type verifEnv struct {
	connects      int
	writes        int
	maxIO         int
	connFailed    bool
	writeFailed   bool
	noWriteFaults bool
	okWrites      map[int]int
	onDialFailure func()
}

type verifStreamRec struct {
	calls int
	errs  []error
}

func verifC16Sender(env *verifEnv, sinkCap int) *Sender {
	s := &Sender{
		Logger:  logrus.StandardLogger(),
		Sink:    make(chan Stream, sinkCap),
		BufPool: sync.Pool{New: func() interface{} { return &bytes.Buffer{} }},
	}
	s.ConnFactory = func() (net.Conn, error) {
		env.connects++
		verifAssume(env.connects <= env.maxIO)
		if nondetBool() {
			env.connFailed = true
			if env.onDialFailure != nil {
				env.onDialFailure()
			}
			return nil, errors.New("connection refused")
		}
		return &verifConn{env: env}, nil
	}
	return s
}

// verifC16: nStreams flush requests of nBufs buffers each; every connect and write may fail
// (at most maxIO of each); any request may be cancelled before the sender sees it; with
// rounds > 0 the harness controls time (the reconnect timer fires only when it says so) and in
// each round either cancels the request the sender is holding, lets the timer fire, or does
// nothing; finally the sender is shut down.
func verifC16(nStreams, nBufs, maxIO, rounds int) {
	env := &verifEnv{maxIO: maxIO, okWrites: map[int]int{}}
	if rounds > 0 {
		verifTimersManual()
	}
	s := verifC16Sender(env, 4)
	ctx, cancel := context.WithCancel(context.Background())
	// the daemon may be shut down while a dial is in progress (and the dial then fails)
	env.onDialFailure = func() {
		if ctx.Err() == nil && nondetBool() {
			cancel()
		}
	}
	recs := make([]*verifStreamRec, nStreams)
	cancels := make([]context.CancelFunc, nStreams)
	cancelled := make([]bool, nStreams)
	pushed := 0
	push := func() {
		i := pushed
		pushed++
		rec := &verifStreamRec{}
		recs[i] = rec
		sctx, scancel := context.WithCancel(ctx)
		cancels[i] = scancel
		bufs := make(chan *bytes.Buffer, nBufs)
		for j := 0; j < nBufs; j++ {
			b := s.GetBuffer()
			b.WriteByte('s')
			b.WriteByte(byte(i))
			b.WriteString("payload\n")
			bufs <- b
		}
		close(bufs) // Graphite hands over a pre-filled, closed buffer channel
		if nondetBool() {
			// the flush request is cancelled before the sender gets to it
			scancel()
			cancelled[i] = true
		}
		s.Sink <- Stream{Ctx: sctx, Cb: func(errs []error) {
			rec.calls++
			rec.errs = errs
		}, Buf: bufs}
	}
	// without rounds every request is queued before the sender starts; with rounds a symbolic
	// number of them is, the others may be handed over later (round action 3)
	first := nStreams
	if rounds > 0 {
		first = nondetIntIn(0, nStreams)
	}
	for pushed < first {
		push()
	}
	go s.Run(ctx)
	settle := func() {
		if rounds == 0 {
			verifSettle() // the reconnect timer fires by itself in this world
		} else {
			verifYield()
		}
	}
	settle()
	for r := 0; r < rounds; r++ {
		switch nondetIntIn(0, 3) {
		case 3:
			if pushed < nStreams && ctx.Err() == nil { // the sender must not be used after shutdown
				push()
				verifYield()
				verifReach("late-push")
			}
		case 1:
			// cancel the oldest unanswered request: the sender is parked (every goroutine ran
			// until it blocked), requests are taken in order, so this is the one it holds
			held := -1
			for i := 0; i < pushed; i++ {
				if recs[i].calls == 0 {
					held = i
					break
				}
			}
			if held >= 0 && !cancelled[held] {
				cancels[held]()
				cancelled[held] = true
				verifYield()
				verifAssert(recs[held].calls >= 1, "a request cancelled while the connection is down is not answered when it is cancelled")
				verifAssert(len(recs[held].errs) > 0, "a request cancelled while the connection is down is answered without an error")
				verifReach("cancel-held")
			}
		case 2:
			verifAdvanceTime()
			verifYield()
		}
	}
	// shutdown
	cancel()
	settle()
	recs, cancels = recs[:pushed], cancels[:pushed]
	for i, rec := range recs {
		verifAssert(rec.calls >= 1, "a flush request handed to the sender is never answered (no callback)")
		verifAssert(rec.calls <= 1, "a flush request handed to the sender is answered more than once")
		if env.okWrites[i] < nBufs {
			verifAssert(len(rec.errs) > 0, "a request whose buffers were not all written is answered without an error")
			verifReach("undelivered")
		}
	}
	if !env.connFailed && !env.writeFailed {
		for i, rec := range recs {
			if !cancelled[i] {
				verifAssert(len(rec.errs) == 0, "no error is reported when the transport never failed and the request was not cancelled")
			}
		}
		verifReach("clean")
	} else {
		verifReach("faulty")
	}
	for i := range cancels {
		cancels[i]()
	}
}

func VerifC16_1_1() { verifC16(1, 1, 3, 0) }
func VerifC16_1_2() { verifC16(1, 2, 4, 0) }
func VerifC16_2_1() { verifC16(2, 1, 4, 0) }
func VerifC16_2_2() { verifC16(2, 2, 5, 0) }

// with harness-controlled time
func VerifC16_T_1_1() { verifC16(1, 1, 3, 2) }
func VerifC16_T_2_1() { verifC16(2, 1, 3, 3) }
func VerifC16_T_2_2() { verifC16(2, 2, 4, 3) }

// VerifC16_Rollover: a connection is recycled after maxStreamsPerConnection requests. One
// request is picked up while the connection is down, then 100 requests are delivered on one
// connection, the next connect may fail again; all flush contexts are done by then (a flusher
// cancels its context when the flush interval ends). Writes never fail here.
func VerifC16_Rollover() {
	const n = maxStreamsPerConnection + 1
	env := &verifEnv{maxIO: 4, okWrites: map[int]int{}, noWriteFaults: true}
	verifTimersManual()
	s := verifC16Sender(env, n)
	ctx, cancel := context.WithCancel(context.Background())
	calls := make([]int, n)
	var cancels []context.CancelFunc
	push := func(i int) {
		sctx, scancel := context.WithCancel(ctx)
		cancels = append(cancels, scancel)
		bufs := make(chan *bytes.Buffer, 1)
		b := s.GetBuffer()
		b.WriteString("payload\n")
		bufs <- b
		close(bufs)
		s.Sink <- Stream{Ctx: sctx, Cb: func(errs []error) { calls[i]++ }, Buf: bufs}
	}
	push(0)
	go s.Run(ctx)
	verifYield()
	for i := 1; i < n-1; i++ {
		push(i)
	}
	verifAdvanceTime()
	verifYield()
	// the flush intervals of everything handed over so far have ended
	for _, c := range cancels {
		c()
	}
	verifYield()
	push(n - 1)
	verifAdvanceTime()
	verifYield()
	verifAdvanceTime()
	verifYield()
	cancel()
	verifYield()
	for i := 0; i < n; i++ {
		verifAssert(calls[i] == 1, "a flush request is not answered exactly once around a connection rollover")
	}
	verifReach("rollover-done")
}

func VerifC16_Twin() {
	verifC16(1, 1, 3, 2)
	verifAssert(false, "twin-false")
}
