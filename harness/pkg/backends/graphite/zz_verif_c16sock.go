package graphite

// generated from harness/backends/c16sock.go.tmpl by harness/backends/gen.sh - do not edit

import (
	"bytes"
	"context"
	"errors"
	"net"
	"time"

	"github.com/atlassian/gostatsd"
)

// A scripted socket: every dial and every write succeeds or fails by symbolic choice (at most
// maxIO of each, longer scripts are cut); what was written successfully is recorded.
type verifSockEnv struct {
	dials, writes, maxIO int
	failed               bool
	written              bytes.Buffer
}

type verifSockConn struct{ env *verifSockEnv }

func (c *verifSockConn) Read(b []byte) (int, error) { return 0, errors.New("unused") }
func (c *verifSockConn) Write(b []byte) (int, error) {
	c.env.writes++
	verifAssume(c.env.writes <= c.env.maxIO)
	if nondetBool() {
		c.env.failed = true
		return 0, errors.New("broken pipe")
	}
	c.env.written.Write(b)
	return len(b), nil
}
func (c *verifSockConn) Close() error                       { return nil }
func (c *verifSockConn) LocalAddr() net.Addr                { return nil }
func (c *verifSockConn) RemoteAddr() net.Addr               { return nil }
func (c *verifSockConn) SetDeadline(t time.Time) error      { return nil }
func (c *verifSockConn) SetReadDeadline(t time.Time) error  { return nil }
func (c *verifSockConn) SetWriteDeadline(t time.Time) error { return nil }

func (e *verifSockEnv) dial() (net.Conn, error) {
	e.dials++
	verifAssume(e.dials <= e.maxIO)
	if nondetBool() {
		e.failed = true
		return nil, errors.New("connection refused")
	}
	return &verifSockConn{env: e}, nil
}

type verifFlushRec struct {
	calls     int
	errs      []error
	cancelled bool
}

// verifC16Socket: the backend's Run goroutine and nFlush successive SendMetricsAsync calls
// (each with its own flush context that may be cancelled before or after the hand-over), the
// daemon is shut down at the end. Exactly one callback per flush; no error and the complete
// payload on the wire when nothing failed and nothing was cancelled.
func verifC16Socket(env *verifSockEnv, nFlush int, run func(context.Context), send func(context.Context, *gostatsd.MetricMap, gostatsd.SendCallback), complete func(wire string, nFlush int) bool) {
	// the harness's own choices are drawn before any goroutine starts (a native replay then
	// consumes the values in the same order): per flush 0: not cancelled, 1: cancelled before
	// the hand-over, 2: after it
	whens := make([]int, nFlush)
	for f := range whens {
		whens[f] = nondetIntIn(0, 2)
	}
	ctx, cancel := context.WithCancel(context.Background())
	go run(ctx)
	verifYield()
	recs := make([]*verifFlushRec, nFlush)
	anyCancel := false
	for f := 0; f < nFlush; f++ {
		rec := &verifFlushRec{}
		recs[f] = rec
		fctx, fcancel := context.WithCancel(ctx)
		when := whens[f]
		if when == 1 {
			fcancel()
		}
		mm := gostatsd.NewMetricMap(false)
		mm.Gauges["g"] = map[string]gostatsd.Gauge{"": {Value: 1}}
		mm.Gauges["h"] = map[string]gostatsd.Gauge{"": {Value: 2}}
		send(fctx, mm, func(errs []error) {
			rec.calls++
			rec.errs = errs
		})
		if when == 2 {
			fcancel()
		}
		if when != 0 {
			rec.cancelled = true
			anyCancel = true
		}
		verifSettle()
		defer fcancel()
	}
	cancel()
	verifSettle()
	for _, rec := range recs {
		verifAssert(rec.calls >= 1, "a flush handed to the backend is never answered (no callback)")
		verifAssert(rec.calls <= 1, "a flush handed to the backend is answered more than once")
		if !env.failed && !rec.cancelled {
			verifAssert(len(rec.errs) == 0, "no error is reported when the transport never failed and the flush was not cancelled")
		}
	}
	if !env.failed && !anyCancel {
		verifAssert(complete(env.written.String(), nFlush), "with a healthy transport the complete payload of every flush is on the wire, in order")
		verifReach("clean")
	} else {
		verifReach("faulty")
	}
}
