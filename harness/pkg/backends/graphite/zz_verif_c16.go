package graphite

import (
	"bytes"
	"strings"
	"sync"

	"github.com/sirupsen/logrus"

	"github.com/atlassian/gostatsd/pkg/backends/sender"
)

// VerifC16_Graphite: the whole Graphite backend - SendMetricsAsync (payload, hand-over of a
// one-buffer stream) and the real sender goroutine - against a scripted socket, 1..2 flushes.
func verifC16Graphite(nFlush, maxIO int) {
	env := &verifSockEnv{maxIO: maxIO}
	now := int64(1000) * 1000000000 // a concrete clock: the time stamp in the payload is "1000" symbolically
	verifSetNow(&now)
	c := &Client{
		gaugesNamespace: "stats.gauges",
		sender: sender.Sender{
			Logger:      logrus.StandardLogger(),
			ConnFactory: env.dial,
			Sink:        make(chan sender.Stream, maxConcurrentSends),
			BufPool:     sync.Pool{New: func() interface{} { return &bytes.Buffer{} }},
		},
	}
	verifC16Socket(env, nFlush, c.Run, c.SendMetricsAsync, func(wire string, n int) bool {
		// the time stamp is the wall clock's: every flush has one line per gauge
		return strings.Count(wire, "stats.gauges.g 1.000000 ") == n && strings.Count(wire, "stats.gauges.h 2.000000 ") == n && strings.Count(wire, "\n") == 2*n
	})
}

func VerifC16_Graphite1() { verifC16Graphite(1, 3) }
func VerifC16_Graphite2() { verifC16Graphite(2, 4) }
