package graphite

import (
	"bytes"
	"sync"
	"time"
	"github.com/atlassian/gostatsd"
)

func VerifC04_Graphite() {
	c := &Client{counterNamespace: "stats.counters", timerNamespace: "stats.timers", gaugesNamespace: "stats.gauges", setsNamespace: "stats.sets", globalSuffix: "sfx"}
	c.sender.BufPool = sync.Pool{New: func() interface{} { return &bytes.Buffer{} }}
	switch nondetIntIn(0, 2) {
	case 0:
		c.legacyNamespace = true
	case 1:
		c.enableTags = true
	}
	if nondetBool() {
		c.disabledSubtypes = gostatsd.TimerSubtypes{Lower: true, Upper: true, Count: true, CountPerSecond: true, Mean: true, Median: true, StdDev: true, Sum: true, SumSquares: true}
	}
	verifAggregates(func(mm *gostatsd.MetricMap) {
		buf := c.preparePayload(mm, time.Unix(100, 0))
		verifAssert(buf.Len() > 0, "graphite: payload is not empty")
	})
}
