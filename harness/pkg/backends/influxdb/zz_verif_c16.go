package influxdb

import (
	"bytes"
	"context"
	"net/http"
	"time"

	"github.com/sirupsen/logrus"
	"github.com/tilinna/clock"

	"github.com/atlassian/gostatsd"
)

// VerifC16_Influx: the real SendMetricsAsync (processMetrics, one goroutine per batch, the
// collector goroutine), postData / post retry loop (real exponential back-off against the
// symbolic clock) and constructPost against a symbolic per-attempt fault script, 1..2 batches,
// 0..2 free request buffers (so batches may queue on the semaphore), the flush context possibly
// cancelled while an attempt is in flight.
func verifC16Influx(maxAttempts int, inflightCancel bool) {
	clk := verifNewStepClock()
	up := &verifC16Upstream{max: maxAttempts, okStatus: 204, clk: clk, window: 30 * time.Second}
	ctx, cancel := context.WithCancel(clock.Context(context.Background(), clk))
	defer cancel()
	if inflightCancel && nondetBool() {
		up.cancel = cancel
	}
	// 0 buffers: every request buffer is held by a request of an earlier flush that is still
	// retrying; the flush then waits for one - until shutdown
	nbuf := nondetIntIn(0, 2)
	idb := &Client{
		logger:                logrus.StandardLogger(),
		url:                   "http://influx/write",
		maxRequestElapsedTime: 30 * time.Second,
		client:                &http.Client{Transport: up},
		metricsPerBatch:       uint64(nondetIntIn(1, 2)),
		reqBufferSem:          make(chan *bytes.Buffer, nbuf),
		flushInterval:         10 * time.Second,
	}
	for i := 0; i < nbuf; i++ {
		idb.reqBufferSem <- &bytes.Buffer{}
	}
	mm := gostatsd.NewMetricMap(false)
	mm.Gauges["g"] = map[string]gostatsd.Gauge{"": {Value: 1}}
	if nondetBool() {
		mm.Gauges["h"] = map[string]gostatsd.Gauge{"": {Value: 2}}
	}
	res := &verifC16Result{}
	if nondetBool() {
		// the daemon is shut down just as the flush starts
		up.cancelled = true
		cancel()
	}
	verifAssume(nbuf > 0 || up.cancelled)
	idb.SendMetricsAsync(ctx, mm, res.cb)
	verifSettle()
	verifC16Verdict(up, res, "influxdb")
	verifAssert(len(idb.reqBufferSem) == nbuf || up.cancelled, "influxdb: every request buffer is back in the pool after the flush")
}

// quick: up to 3 attempts, shutdown only just before the flush; Full: shutdown also while an
// attempt is in flight
func VerifC16_Influx()     { verifC16Influx(3, false) }
func VerifC16_InfluxFull() { verifC16Influx(3, true) }

func VerifC16_InfluxTwin() {
	verifC16Influx(1, false)
	verifAssert(false, "twin-false")
}
