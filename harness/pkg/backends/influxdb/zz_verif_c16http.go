package influxdb

// generated from harness/backends/c16http.go.tmpl by harness/backends/gen.sh - do not edit

import (
	"bytes"
	"context"
	"errors"
	"io"
	"net/http"
)

// verifC16Upstream: a symbolic fault script per HTTP attempt {accepted, connection error,
// 503}; an attempt may coincide with the end of the flush interval (the flush context is
// cancelled while the request is in flight). A batch is identified by its request body.
type verifC16Upstream struct {
	attempts  int
	max       int
	failed    bool
	okCount   int
	batchOK   map[string]int
	cancel    context.CancelFunc
	cancelled bool
	okStatus  int
}

func (u *verifC16Upstream) RoundTrip(req *http.Request) (*http.Response, error) {
	u.attempts++
	verifAssume(u.attempts <= u.max)
	key := ""
	if req.GetBody != nil {
		if rc, err := req.GetBody(); err == nil {
			b, _ := io.ReadAll(rc)
			key = string(b)
		}
	}
	if u.batchOK == nil {
		u.batchOK = map[string]int{}
	}
	u.batchOK[key] += 0
	if u.cancel != nil && !u.cancelled && nondetBool() {
		u.cancelled = true
		u.cancel()
	}
	switch nondetIntIn(0, 2) {
	case 0:
		u.okCount++
		u.batchOK[key]++
		return &http.Response{StatusCode: u.okStatus, Body: io.NopCloser(bytes.NewReader(nil)), Header: http.Header{}}, nil
	case 1:
		u.failed = true
		return nil, errors.New("connection reset")
	}
	u.failed = true
	return &http.Response{StatusCode: 503, Body: io.NopCloser(bytes.NewReader(nil)), Header: http.Header{}}, nil
}

type verifC16Result struct {
	calls int
	errs  []error
}

func (r *verifC16Result) cb(errs []error) {
	r.calls++
	r.errs = errs
}

func (r *verifC16Result) nonNil() int {
	n := 0
	for _, e := range r.errs {
		if e != nil {
			n++
		}
	}
	return n
}

// verifC16Verdict: the callback ran exactly once; it carries an error when some batch was
// never accepted or the flush was cancelled before everything was answered, and none when
// every attempt was accepted.
func verifC16Verdict(up *verifC16Upstream, res *verifC16Result, backend string) {
	verifAssert(res.calls >= 1, backend+": the completion callback is never invoked")
	verifAssert(res.calls <= 1, backend+": the completion callback is invoked more than once")
	if !up.failed && !up.cancelled {
		verifAssert(res.nonNil() == 0, backend+": no error when every attempt succeeded")
		verifReach("clean")
	}
	dropped := false
	for _, n := range up.batchOK {
		if n == 0 {
			dropped = true
		}
	}
	if dropped {
		verifAssert(res.nonNil() > 0, backend+": an error is reported when some batch was never accepted")
		if up.okCount > 0 {
			verifReach("partial-failure")
		} else {
			verifReach("all-failed")
		}
	}
	if up.cancelled {
		verifReach("cancelled")
	}
}
