package influxdb

// generated from harness/backends/c16http.go.tmpl by harness/backends/gen.sh - do not edit

import (
	"bytes"
	"context"
	"errors"
	"io"
	"net/http"
	"net/url"
	"time"

	"github.com/tilinna/clock"
)

// verifStepClock: the tilinna mock clock, except that a sleep takes no wall time - creating a
// timer moves the clock to its deadline (and so fires it). The same code runs natively.
type verifStepClock struct{ *clock.Mock }

func (c verifStepClock) NewTimer(d time.Duration) *clock.Timer {
	t := c.Mock.NewTimer(d)
	c.Mock.Add(d)
	return t
}

func verifNewStepClock() verifStepClock {
	return verifStepClock{clock.NewMock(time.Unix(1700000000, 0))}
}

// verifC16Upstream: a symbolic fault script per HTTP attempt {accepted, connection error, 503,
// per-attempt client timeout, 429 with Retry-After (where enabled)}; every attempt takes a
// symbolic time (0..40 s on the mock clock); an attempt may coincide with shutdown (the
// context is cancelled while the request is in flight). A batch is identified by its body.
type verifC16Upstream struct {
	attempts   int
	max        int
	failed     bool
	okCount    int
	batchOK    map[string]int
	cancel     context.CancelFunc
	cancelled  bool
	okStatus   int
	retryAfter bool
	clk        verifStepClock
	window     time.Duration        // the backend's max-request-elapsed-time
	first      map[string]time.Time // start of the first attempt per batch
	expired    map[string]bool      // an attempt that began after the window failed: no retry may follow
}

func (u *verifC16Upstream) RoundTrip(req *http.Request) (*http.Response, error) {
	u.attempts++
	verifAssume(u.attempts <= u.max)
	key := ""
	if req.GetBody != nil {
		if rc, err := req.GetBody(); err == nil {
			b, _ := io.ReadAll(rc)
			key = string(b)
		}
	}
	if u.batchOK == nil {
		u.batchOK, u.first, u.expired = map[string]int{}, map[string]time.Time{}, map[string]bool{}
	}
	u.batchOK[key] += 0
	verifAssert(!u.expired[key], "a batch is retried although its retry window had ended before the previous attempt failed")
	start := u.clk.Now()
	if _, ok := u.first[key]; !ok {
		u.first[key] = start
	}
	u.clk.Add(time.Duration(nondetInt64In(0, 40)) * time.Second) // latency
	if u.cancel != nil && !u.cancelled && nondetBool() {
		u.cancelled = true
		u.cancel()
	}
	hi := 3
	if u.retryAfter {
		hi = 4
	}
	outcome := nondetIntIn(0, hi)
	if outcome != 0 {
		u.failed = true
		if start.Sub(u.first[key]) > u.window {
			u.expired[key] = true
		}
	}
	switch outcome {
	case 0:
		u.okCount++
		u.batchOK[key]++
		return &http.Response{StatusCode: u.okStatus, Body: io.NopCloser(bytes.NewReader(nil)), Header: http.Header{}}, nil
	case 1:
		return nil, errors.New("connection reset")
	case 3:
		// what http.Client.Do returns when its own per-request timeout fires
		return nil, &url.Error{Op: "Post", URL: req.URL.String(), Err: context.DeadlineExceeded}
	case 4:
		h := http.Header{}
		h.Set("Retry-After", "5")
		return &http.Response{StatusCode: 429, Body: io.NopCloser(bytes.NewReader(nil)), Header: h}, nil
	}
	return &http.Response{StatusCode: 503, Body: io.NopCloser(bytes.NewReader(nil)), Header: http.Header{}}, nil
}

type verifC16Result struct {
	calls int
	errs  []error
}

func (r *verifC16Result) cb(errs []error) {
	r.calls++
	r.errs = errs
}

func (r *verifC16Result) nonNil() int {
	n := 0
	for _, e := range r.errs {
		if e != nil {
			n++
		}
	}
	return n
}

// verifC16Verdict: the callback ran exactly once; it carries an error when some batch was
// never accepted or the flush was cancelled before everything was answered, and none when
// every attempt was accepted.
func verifC16Verdict(up *verifC16Upstream, res *verifC16Result, backend string) {
	verifAssert(res.calls >= 1, backend+": the completion callback is never invoked")
	verifAssert(res.calls <= 1, backend+": the completion callback is invoked more than once")
	if !up.failed && !up.cancelled {
		verifAssert(res.nonNil() == 0, backend+": no error when every attempt succeeded")
		verifReach("clean")
	}
	dropped := false
	for _, n := range up.batchOK {
		if n == 0 {
			dropped = true
		}
	}
	if dropped {
		verifAssert(res.nonNil() > 0, backend+": an error is reported when some batch was never accepted")
		if up.okCount > 0 {
			verifReach("partial-failure")
		} else {
			verifReach("all-failed")
		}
	}
	if up.cancelled {
		verifReach("cancelled")
	}
}
