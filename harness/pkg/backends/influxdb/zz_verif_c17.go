package influxdb

import (
	"bytes"
	"context"
	"strings"
	"time"

	"github.com/atlassian/gostatsd"
)

// C17 (InfluxDB): escaping keeps the line protocol well formed and batch accounting loses nothing.

func verifASCII(n int) string {
	b := nondetBytes(n)
	for i := range b {
		verifAssume(b[i] < 0x80 && b[i] != 0)
	}
	return string(b)
}

// verifUnescape is the reference un-escaper of the line protocol's backslash escaping.
func verifUnescape(s string) (string, bool) {
	var out []byte
	for i := 0; i < len(s); i++ {
		if s[i] == '\\' {
			if i+1 >= len(s) {
				return "", false
			}
			i++
			switch s[i] {
			case 'n':
				out = append(out, '\n')
			case 'r':
				out = append(out, '\r')
			case 't':
				out = append(out, '\t')
			default:
				out = append(out, s[i])
			}
			continue
		}
		out = append(out, s[i])
	}
	return string(out), true
}

// verifNoBare reports whether none of the bytes in seps occurs unescaped in s.
func verifNoBare(s string, seps string) bool {
	for i := 0; i < len(s); i++ {
		if s[i] == '\\' {
			i++
			continue
		}
		if strings.IndexByte(seps, s[i]) >= 0 {
			return false
		}
	}
	return true
}

func verifC17Escape(n int) {
	in := verifASCII(n)
	var sb strings.Builder
	escapeTagToBuilder(&sb, in)
	out := sb.String()
	verifAssert(verifNoBare(out, " ,=\n\r\t"), "influxdb: an escaped tag contains a bare separator")
	back, ok := verifUnescape(out)
	verifAssert(ok && back == in, "influxdb: an escaped tag does not unescape to the input")
	var sn strings.Builder
	escapeNameToBuilder(&sn, in)
	verifAssert(verifNoBare(sn.String(), " ,\n\r\t"), "influxdb: an escaped measurement name contains a bare separator")
	back, ok = verifUnescape(sn.String())
	verifAssert(ok && back == in, "influxdb: an escaped name does not unescape to the input")
	var ss strings.Builder
	escapeStringToBuilder(&ss, in)
	q := ss.String()
	verifAssert(len(q) >= 2 && q[0] == '"' && q[len(q)-1] == '"' && verifNoBare(q[1:len(q)-1], "\""), "influxdb: a string field value is quoted and contains no bare quote")
	verifReach("escaped")
}

func VerifC17_Escape1() { verifC17Escape(1) }
func VerifC17_Escape2() { verifC17Escape(2) }
func VerifC17_Escape3() { verifC17Escape(3) }

// VerifC17_InfluxBatches: k series with a symbolic batch size: every callback carries between 1 and
// metrics-per-batch series, the counts add up to k, and the number of newline-terminated lines in
// each buffer equals its series count.
func VerifC17_InfluxBatches() {
	batch := uint64(nondetIntIn(1, 4))
	k := nondetIntIn(0, 5)
	idb := &Client{metricsPerBatch: batch, flushInterval: 10 * time.Second, reqBufferSem: make(chan *bytes.Buffer, 8)}
	for i := 0; i < 8; i++ {
		idb.reqBufferSem <- &bytes.Buffer{}
	}
	mm := gostatsd.NewMetricMap(false)
	names := []string{"a", "b", "c", "d", "e"}
	for i := 0; i < 5; i++ {
		if i < k {
			mm.Gauges[names[i]] = map[string]gostatsd.Gauge{"": {Value: float64(i)}}
		}
	}
	total := uint64(0)
	calls := 0
	idb.processMetrics(context.Background(), 100, mm, func(buf *bytes.Buffer, n uint64) {
		verifAssert(n >= 1 && n <= batch, "influxdb: batch size limit respected")
		verifAssert(uint64(bytes.Count(buf.Bytes(), []byte{'\n'})) == n, "influxdb: one line per series in a batch")
		total += n
		calls++
		idb.releaseBuffer(buf)
	})
	verifAssert(total == uint64(k), "influxdb: every series is in exactly one batch")
	verifAssert(uint64(calls) == (uint64(k)+batch-1)/batch, "influxdb: the open batch is emitted at the limit and at the end, never empty")
	verifReach("batched")
}

// VerifC17_InfluxTags: formatNameTags renders name,key=value with the value taken after the FIRST
// colon of a key:value tag (the value may contain further colons) and valueless tags under "unnamed".
func VerifC17_InfluxTags() {
	key := verifASCII(1)
	verifAssume((key[0] >= 'a' && key[0] <= 'z') || (key[0] >= '0' && key[0] <= '9'))
	val := verifASCII(2)
	plain := verifASCII(1)
	verifAssume(plain[0] != ':')
	var tags gostatsd.Tags
	var want strings.Builder
	escapeNameToBuilder(&want, "m")
	named := nondetBool()
	if named {
		tags = gostatsd.Tags{key + ":" + val}
		want.WriteByte(',')
		escapeTagToBuilder(&want, key)
		want.WriteByte('=')
		escapeTagToBuilder(&want, val)
	} else {
		tags = gostatsd.Tags{plain}
		want.WriteString(",unnamed=")
		escapeTagToBuilder(&want, plain)
	}
	want.WriteByte(' ')
	got := formatNameTags("m", tags)
	verifAssert(got == want.String(), "influxdb: a tag is rendered as key=value with the value after the first colon (or unnamed=value)")
	verifReach("tags")
}
