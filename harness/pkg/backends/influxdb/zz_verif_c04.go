package influxdb

import (
	"bytes"
	"context"
	"time"
	"github.com/atlassian/gostatsd"
)

// VerifC04_Influx: the real processMetrics / flush.add* payload builder on reachable aggregates,
// symbolic batch size.
func VerifC04_Influx() {
	batch := uint64(nondetIntIn(1, 3))
	idb := &Client{metricsPerBatch: batch, flushInterval: 10 * time.Second, reqBufferSem: make(chan *bytes.Buffer, 8)}
	for i := 0; i < 8; i++ {
		idb.reqBufferSem <- &bytes.Buffer{}
	}
	if nondetBool() {
		idb.disabledSubtypes = gostatsd.TimerSubtypes{Lower: true, Upper: true, Count: true, CountPerSecond: true, Mean: true, Median: true, StdDev: true, Sum: true, SumSquares: true}
	}
	verifAggregates(func(mm *gostatsd.MetricMap) {
		series := uint64(0)
		batches := 0
		idb.processMetrics(context.Background(), 100, mm, func(buf *bytes.Buffer, n uint64) {
			verifAssert(n >= 1 && n <= batch, "influxdb: a batch holds between 1 and metrics-per-batch series")
			verifAssert(buf.Len() > 0, "influxdb: an emitted batch is not empty")
			series += n
			batches++
			idb.releaseBuffer(buf)
		})
		verifAssert(series >= 4, "influxdb: every series is emitted (counter x2, gauge, set at least)")
	})
}
