package statsdaemon

import (
	"bytes"
	"sync"
	"github.com/atlassian/gostatsd"
)

func VerifC04_StatsDaemon() {
	c := &Client{packetSize: nondetIntIn(1, 64), disableTags: nondetBool()}
	c.sender.BufPool = sync.Pool{New: func() interface{} { return &bytes.Buffer{} }}
	stopAt := nondetIntIn(0, 3)
	verifAggregates(func(mm *gostatsd.MetricMap) {
		calls := 0
		c.processMetrics(mm, func(buf *bytes.Buffer) (*bytes.Buffer, bool) {
			calls++
			if calls == stopAt {
				return nil, true // the consumer asks to stop (cancelled)
			}
			return &bytes.Buffer{}, false
		})
	})
}
