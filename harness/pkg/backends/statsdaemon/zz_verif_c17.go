package statsdaemon

import (
	"bytes"
	"sync"

	"github.com/atlassian/gostatsd"
	"github.com/atlassian/gostatsd/internal/lexer"
	"github.com/atlassian/gostatsd/internal/pool"
)

// C17 (statsd relay): what the relay emits parses back, under gostatsd's own parser, to the same
// names, tags and event fields.

// verifAlpha: a string of n bytes over the property's alphabet [A-Za-z0-9_.:/-] (optionally space).
func verifAlpha(n int, space bool, colon bool) string {
	b := nondetBytes(n)
	for i := range b {
		c := b[i]
		ok := (c >= 'a' && c <= 'z') || (c >= 'A' && c <= 'Z') || (c >= '0' && c <= '9') || c == '_' || c == '.' || c == '/' || c == '-'
		if colon {
			ok = ok || c == ':'
		}
		if space {
			ok = ok || c == ' '
		}
		verifAssume(ok)
	}
	return string(b)
}

// VerifC17_EventRoundTrip: constructEventMessage then the real lexer.
func verifC17Event(tn, xn int, newlineInText bool) {
	e := &gostatsd.Event{Title: verifAlpha(tn, true, true), DateHappened: nondetInt64In(0, 99999)}
	text := []byte(verifAlpha(xn, true, true))
	if newlineInText && xn > 0 {
		text[nondetIntIn(0, xn-1)] = '\n'
	}
	e.Text = string(text)
	if nondetBool() {
		e.Source = gostatsd.Source(verifAlpha(1, false, false))
	}
	if nondetBool() {
		e.AggregationKey = verifAlpha(1, false, true)
		e.SourceTypeName = verifAlpha(1, false, false)
	}
	if nondetBool() {
		e.Priority = gostatsd.PriLow
	}
	e.AlertType = gostatsd.AlertType(nondetIntIn(0, 3))
	nt := nondetIntIn(0, 2)
	for i := 0; i < 2; i++ {
		if i < nt {
			e.Tags = append(e.Tags, verifAlpha(1, false, true))
		}
	}
	msg := constructEventMessage(e).Bytes()
	l := &lexer.Lexer{MetricPool: pool.NewMetricPool(0)}
	m, got, err := l.Run(append([]byte{}, msg...), "")
	verifAssert(err == nil && m == nil && got != nil, "the relayed event parses back as an event")
	if err != nil || got == nil {
		return
	}
	verifAssert(got.Title == e.Title, "relayed event: title")
	verifAssert(got.Text == e.Text, "relayed event: text (newlines escaped and restored)")
	verifAssert(got.DateHappened == e.DateHappened, "relayed event: date")
	verifAssert(got.Source == e.Source, "relayed event: source travels as h:")
	verifAssert(got.AggregationKey == e.AggregationKey && got.SourceTypeName == e.SourceTypeName, "relayed event: aggregation key and source type")
	verifAssert(got.Priority == e.Priority && got.AlertType == e.AlertType, "relayed event: priority and alert type")
	verifAssert(len(got.Tags) == len(e.Tags), "relayed event: number of tags")
	for i := range e.Tags {
		if i < len(got.Tags) {
			verifAssert(got.Tags[i] == e.Tags[i], "relayed event: tags")
		}
	}
	verifReach("event-roundtrip")
}

func VerifC17_Event_1_1()   { verifC17Event(1, 1, false) }
func VerifC17_Event_2_2()   { verifC17Event(2, 2, false) }
func VerifC17_Event_1_2NL() { verifC17Event(1, 2, true) }
func VerifC17_Event_0_0()   { verifC17Event(0, 0, false) }

// VerifC17_Lines: the metric lines the relay emits parse back to the same names, tags (source as
// an extra s: tag), counter value, set member; the statsd.-prefixed counters are skipped.
func VerifC17_Lines() {
	name := verifAlpha(2, false, false)
	verifAssume(name[0] != '_' && name[0] != '.' && name[0] != '/') // names from [A-Za-z0-9_.-]; a leading '_' is C02's known finding
	verifAssume(name[1] != '/')
	tag := verifAlpha(1, false, true)
	member := verifAlpha(1, false, true)
	src := gostatsd.Source("")
	if nondetBool() {
		src = "h1"
	}
	tags := gostatsd.Tags{tag}
	tk := gostatsd.FormatTagsKey(src, tags)
	mm := gostatsd.NewMetricMap(false)
	typ := nondetIntIn(0, 3)
	switch typ {
	case 0:
		mm.Counters[name] = map[string]gostatsd.Counter{tk: {Value: 42, Tags: tags, Source: src}}
		mm.Counters["statsd.skipped"] = map[string]gostatsd.Counter{"": {Value: 1}}
	case 1:
		mm.Gauges[name] = map[string]gostatsd.Gauge{tk: {Value: 1.5, Tags: tags, Source: src}}
	case 2:
		mm.Timers[name] = map[string]gostatsd.Timer{tk: {Values: []float64{0.25, 3}, Tags: tags, Source: src}}
	default:
		mm.Sets[name] = map[string]gostatsd.Set{tk: {Values: map[string]struct{}{member: {}}, Tags: tags, Source: src}}
	}
	c := &Client{packetSize: 1500}
	c.sender.BufPool = sync.Pool{New: func() interface{} { return &bytes.Buffer{} }}
	var out []byte
	c.processMetrics(mm, func(buf *bytes.Buffer) (*bytes.Buffer, bool) {
		out = append(out, buf.Bytes()...)
		return &bytes.Buffer{}, false
	})
	// parse every line back
	l := &lexer.Lexer{MetricPool: pool.NewMetricPool(0)}
	nLines := 0
	for len(out) > 0 {
		idx := bytes.IndexByte(out, '\n')
		verifAssert(idx >= 0, "every relayed line is newline-terminated")
		if idx < 0 {
			return
		}
		line := append([]byte{}, out[:idx]...)
		out = out[idx+1:]
		m, _, err := l.Run(line, "")
		verifAssert(err == nil && m != nil, "a relayed line parses back as a metric")
		if err != nil || m == nil {
			return
		}
		nLines++
		verifAssert(m.Name == name, "relayed line: series name")
		wantTags := 1
		if src != "" {
			wantTags = 2
		}
		verifAssert(len(m.Tags) == wantTags, "relayed line: tags (the source travels as an extra s: tag)")
		if len(m.Tags) >= 1 {
			verifAssert(m.Tags[0] == tag || (len(m.Tags) == 2 && m.Tags[1] == tag), "relayed line: tag preserved")
		}
		if src != "" && len(m.Tags) == 2 {
			verifAssert(m.Tags[0] == "s:h1" || m.Tags[1] == "s:h1", "relayed line: source as s: tag")
		}
		switch typ {
		case 0:
			verifAssert(m.Type == gostatsd.COUNTER && m.Value == 42, "relayed counter total")
		case 1:
			verifAssert(m.Type == gostatsd.GAUGE && m.Value == 1.5, "relayed gauge value")
		case 2:
			verifAssert(m.Type == gostatsd.TIMER && (m.Value == 0.25 || m.Value == 3), "relayed timer values")
		default:
			verifAssert(m.Type == gostatsd.SET && m.StringValue == member, "relayed set member")
		}
	}
	want := 1
	if typ == 2 {
		want = 2
	}
	verifAssert(nLines == want, "every series is relayed exactly once (statsd.* counters skipped)")
	verifReach("lines-roundtrip")
}

// VerifC17_Packing: no emitted datagram exceeds the packet size unless it is a single line;
// every line is emitted exactly once.
func VerifC17_Packing() {
	c := &Client{packetSize: nondetIntIn(8, 40), disableTags: nondetBool()}
	c.sender.BufPool = sync.Pool{New: func() interface{} { return &bytes.Buffer{} }}
	mm := gostatsd.NewMetricMap(false)
	n := nondetIntIn(0, 4)
	names := []string{"a", "bbbbbb", "cc", "dddddddddddddddd"}
	for i := 0; i < 4; i++ {
		if i < n {
			mm.Counters[names[i]] = map[string]gostatsd.Counter{"t:1": {Value: int64(i)}}
		}
	}
	lines := 0
	c.processMetrics(mm, func(buf *bytes.Buffer) (*bytes.Buffer, bool) {
		b := buf.Bytes()
		nl := bytes.Count(b, []byte{'\n'})
		lines += nl
		verifAssert(len(b) <= c.packetSize || nl <= 1, "a relay datagram exceeds the packet size although it holds more than one line")
		if len(b) > 0 {
			verifAssert(b[len(b)-1] == '\n', "a relay datagram ends with a complete line")
		}
		return &bytes.Buffer{}, false
	})
	verifAssert(lines == n, "every series is emitted exactly once across the datagrams")
	verifReach("packed")
}

func VerifC17_Twin() {
	verifC17Event(1, 1, false)
	verifAssert(false, "twin-false")
}

// VerifC17_RelayPrefix: only counters whose name starts with "statsd." (gostatsd's own internal
// counters) are left out by the relay; a counter that merely starts with the same letters is a
// user's series and is relayed exactly once, as are gauges of any name.
func VerifC17_RelayPrefix() {
	names := []string{"statsd", "statsd_x", "statsdx.y", "statsd-p", "statsd.y", "xstatsd.y", "stats.d"}
	name := names[nondetIntIn(0, len(names)-1)]
	mm := gostatsd.NewMetricMap(false)
	mm.Counters[name] = map[string]gostatsd.Counter{"": {Value: 7}}
	mm.Gauges["statsd.g"] = map[string]gostatsd.Gauge{"": {Value: 1.5}}
	c := &Client{packetSize: 1500}
	c.sender.BufPool = sync.Pool{New: func() interface{} { return &bytes.Buffer{} }}
	var out []byte
	c.processMetrics(mm, func(buf *bytes.Buffer) (*bytes.Buffer, bool) {
		out = append(out, buf.Bytes()...)
		return &bytes.Buffer{}, false
	})
	wantCounter := 1
	if len(name) >= 7 && name[:7] == "statsd." {
		wantCounter = 0
	}
	counters, gauges := 0, 0
	l := &lexer.Lexer{MetricPool: pool.NewMetricPool(0)}
	for len(out) > 0 {
		idx := bytes.IndexByte(out, '\n')
		if idx < 0 {
			break
		}
		line := append([]byte{}, out[:idx]...)
		out = out[idx+1:]
		m, _, err := l.Run(line, "")
		verifAssert(err == nil && m != nil, "a relayed line parses back as a metric")
		if err != nil || m == nil {
			return
		}
		if m.Type == gostatsd.COUNTER {
			counters++
			verifAssert(m.Name == name && m.Value == 7, "relayed counter: name and total")
		} else {
			gauges++
		}
	}
	verifAssert(counters == wantCounter, "a counter is left out by the relay exactly when its name starts with \"statsd.\"")
	verifAssert(gauges == 1, "gauges are relayed whatever their name")
	verifReach("prefix")
}
