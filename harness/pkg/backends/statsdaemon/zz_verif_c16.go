package statsdaemon

import (
	"bytes"
	"sync"

	"github.com/sirupsen/logrus"

	"github.com/atlassian/gostatsd/pkg/backends/sender"
)

// VerifC16_StatsDaemon: the whole relay backend - SendMetricsAsync (hand-over of a stream,
// processMetrics producing datagram-sized buffers into the stream's channel) and the real
// sender goroutine - against a scripted socket, 1..2 flushes.
func verifC16StatsDaemon(nFlush, maxIO int) {
	env := &verifSockEnv{maxIO: maxIO}
	c := &Client{
		packetSize: 16, // one line per buffer: "g:1.000000|g\n" is 13 bytes
		sender: sender.Sender{
			Logger:      logrus.StandardLogger(),
			ConnFactory: env.dial,
			Sink:        make(chan sender.Stream, maxConcurrentSends),
			BufPool:     sync.Pool{New: func() interface{} { return &bytes.Buffer{} }},
		},
	}
	verifC16Socket(env, nFlush, c.Run, c.SendMetricsAsync, func(wire string, n int) bool {
		want := ""
		for f := 0; f < n; f++ {
			want += "g:1.000000|g\nh:2.000000|g\n"
		}
		return wire == want
	})
}

func VerifC16_StatsDaemon1() { verifC16StatsDaemon(1, 3) }
func VerifC16_StatsDaemon2() { verifC16StatsDaemon(2, 4) }
