package newrelic

import (
	"time"

	"github.com/atlassian/gostatsd"
)

// VerifC17_NewRelicBatches: k gauges and a symbolic batch size (insights/infra payload shape):
// the emitted batches together hold every series exactly once.
func VerifC17_NewRelicBatches() {
	n := &Client{flushType: flushTypeInsights, metricsPerBatch: uint(nondetIntIn(1, 60)), flushInterval: 10 * time.Second, metricName: "name", metricType: "type",
		metricPerSecond: "per_second", metricValue: "value", eventType: "GoStatsD"}
	k := nondetIntIn(0, 4)
	mm := gostatsd.NewMetricMap(false)
	names := []string{"a", "b", "c", "d"}
	for i := 0; i < 4; i++ {
		if i < k {
			mm.Gauges[names[i]] = map[string]gostatsd.Gauge{"": {Value: float64(i + 1)}}
		}
	}
	total := 0
	n.processMetrics(100, mm, func(ts *timeSeries) {
		total += len(ts.Metrics)
	})
	verifAssert(total == k, "newrelic: every series exactly once across the batches")
	verifReach("batched")
}
