package newrelic

import (
	"bytes"
	"context"
	"net/http"
	"sync/atomic"
	"time"

	"github.com/sirupsen/logrus"
	"github.com/tilinna/clock"

	"github.com/atlassian/gostatsd"
)

// VerifC16_NewRelic: the real SendMetricsAsync (processMetrics, goroutine per batch, collector),
// post retry loop (real exponential back-off, symbolic clock, Retry-After handling) and
// constructPost / postWrapper (encoding/json stubbed) against a symbolic per-attempt fault
// script, 1..2 batches, 0..2 free request buffers, the three flush types, shutdown before or
// during the flush.
// quick: Infra flush type, no shutdown (the goroutine-per-batch / collector code is the same
// shape as datadog's, where shutdown is explored); the fault script includes 429 + Retry-After
func VerifC16_NewRelic() { verifC16NewRelic("", 0, false) }

func VerifC16_NewRelicCancel() { verifC16NewRelic("", 0, true) }

// all three flush types
func VerifC16_NewRelicTypes() { verifC16NewRelic("", 2, false) }

// with an API key the Insights / Metrics payloads are gzip-compressed inside the attempt (the
// real compress/gzip is interpreted)
func VerifC16_NewRelicKey() { verifC16NewRelic("key", 2, false) }

// VerifC17_NewRelicRetryBody: one batch, up to three attempts that fail or not, API key set:
// every attempt must carry the same (compressed) payload.
func VerifC17_NewRelicRetryBody() {
	clk := verifNewStepClock()
	up := &verifC16Upstream{max: 3, okStatus: 202, clk: clk, window: 30 * time.Second, retryAfter: true}
	n := verifC16Client(up, "key", 1, 2)
	n.metricsBufferSem <- &bytes.Buffer{}
	mm := gostatsd.NewMetricMap(false)
	mm.Gauges["g"] = map[string]gostatsd.Gauge{"": {Value: 1}}
	res := &verifC16Result{}
	n.SendMetricsAsync(clock.Context(context.Background(), clk), mm, res.cb)
	verifSettle()
	verifAssert(res.calls == 1, "newrelic: the completion callback is invoked exactly once")
	verifAssert(len(up.batchOK) == 1, "newrelic: every attempt of a batch carries the same payload (a retry must not re-encode what the previous attempt encoded)")
	if up.attempts > 1 {
		verifReach("retried")
	}
}

func verifC16Client(up *verifC16Upstream, apiKey string, perBatch, maxType int) *Client {
	return &Client{
		logger:                logrus.StandardLogger(),
		address:               "http://newrelic/v1/data",
		addressMetrics:        "http://newrelic/metric/v1",
		eventType:             "GoStatsD",
		apiKey:                apiKey,
		flushType:             []string{flushTypeInfra, flushTypeInsights, flushTypeMetrics}[nondetIntIn(0, maxType)],
		metricName:            "name", metricType: "type", metricPerSecond: "per_second", metricValue: "value",
		timerMin:              "min", timerMax: "max", timerCount: "count", timerMean: "mean", timerMedian: "median",
		timerStdDev:           "std_dev", timerSum: "sum", timerSumSquares: "sum_squares",
		userAgent:             "gostatsd",
		maxRequestElapsedTime: 30 * time.Second,
		client:                &http.Client{Transport: up},
		metricsPerBatch:       uint(perBatch),
		metricsBufferSem:      make(chan *bytes.Buffer, 2),
		flushInterval:         10 * time.Second,
	}
}

func verifC16NewRelic(apiKey string, maxType int, withCancel bool) {
	clk := verifNewStepClock()
	up := &verifC16Upstream{max: 3, okStatus: 202, clk: clk, window: 30 * time.Second, retryAfter: true}
	ctx, cancel := context.WithCancel(clock.Context(context.Background(), clk))
	defer cancel()
	if withCancel && nondetBool() {
		up.cancel = cancel
	}
	nbuf := nondetIntIn(0, 2)
	n := verifC16Client(up, apiKey, nondetIntIn(1, 2), maxType)
	for i := 0; i < nbuf; i++ {
		n.metricsBufferSem <- &bytes.Buffer{}
	}
	mm := gostatsd.NewMetricMap(false)
	mm.Gauges["g"] = map[string]gostatsd.Gauge{"": {Value: 1}}
	if nondetBool() {
		mm.Gauges["h"] = map[string]gostatsd.Gauge{"": {Value: 2}}
	}
	res := &verifC16Result{}
	if withCancel && nondetBool() {
		up.cancelled = true
		cancel()
	}
	verifAssume(nbuf > 0 || up.cancelled)
	n.SendMetricsAsync(ctx, mm, res.cb)
	verifSettle()
	verifC16Verdict(up, res, "newrelic")
	verifAssert(len(up.batchOK) <= int(atomic.LoadUint64(&n.batchesCreated)), "newrelic: every attempt of a batch carries the same body")
	verifAssert(len(n.metricsBufferSem) == nbuf || up.cancelled, "newrelic: every request buffer is back in the pool after the flush")
}

func VerifC16_NewRelicTwin() {
	VerifC16_NewRelic()
	verifAssert(false, "twin-false")
}
