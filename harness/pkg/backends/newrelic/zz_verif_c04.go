package newrelic

import (
	"time"
	"github.com/atlassian/gostatsd"
)

func VerifC04_NewRelic() {
	ft := []string{flushTypeInsights, flushTypeInfra, flushTypeMetrics}[nondetIntIn(0, 2)]
	n := &Client{flushType: ft, metricsPerBatch: uint(nondetIntIn(1, 40)), flushInterval: 10 * time.Second, tagPrefix: "", metricName: "name", metricType: "type",
		metricPerSecond: "per_second", metricValue: "value", timerMin: "min", timerMax: "max", timerCount: "count", timerMean: "mean", timerMedian: "median",
		timerStdDev: "stddev", timerSum: "sum", timerSumSquares: "sum_squares", eventType: "GoStatsD"}
	if nondetBool() {
		n.disabledSubtypes = gostatsd.TimerSubtypes{Lower: true, Upper: true, Count: true, CountPerSecond: true, Mean: true, Median: true, StdDev: true, Sum: true, SumSquares: true}
	}
	verifAggregates(func(mm *gostatsd.MetricMap) {
		total := 0
		n.processMetrics(100, mm, func(ts *timeSeries) {
			total += len(ts.Metrics)
		})
		verifAssert(total >= 4, "newrelic: every series is emitted (two counters, gauge, set at least)")
	})
}
