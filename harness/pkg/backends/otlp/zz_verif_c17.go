package otlp

import (
	"bytes"
	"context"
	"errors"
	"io"
	"net/http"
	"time"

	"github.com/sirupsen/logrus"

	"github.com/atlassian/gostatsd"
	"github.com/atlassian/gostatsd/pkg/backends/otlp/internal/data"
)

// VerifC17_OTLPGroups: inserting k metrics over r resources with a symbolic batch size: no batch
// holds more than the batch size and all k metrics are in exactly one batch.
func VerifC17_OTLPGroups() {
	batch := nondetIntIn(1, 3)
	k := nondetIntIn(0, 5)
	g := newGroups(batch)
	is := data.NewInstrumentationScope("x", "1")
	for i := 0; i < 5; i++ {
		if i < k {
			res := data.NewMap()
			if nondetBool() {
				res.Insert("env", "prod")
			}
			g.insert(is, res, data.NewMetric("m"))
		}
	}
	total := 0
	for _, b := range g.batches {
		n := b.lenMetrics()
		verifAssert(n <= batch, "otlp: a batch holds more metrics than the batch size") // (a trailing empty batch is created when the last insert fills a batch)
		total += n
	}
	verifAssert(total == k, "otlp: every metric is in exactly one batch")
	verifReach("grouped")
}

// VerifC16_OTLP: the real SendMetricsAsync / postMetrics retry loop against a symbolic fault script
// per attempt (connection error, 503, 200): the completion callback is invoked exactly once, with
// an error whenever no attempt of some batch succeeded, and without one when every batch was
// accepted.
type verifFaultyUpstream struct {
	attempts int
	max      int
	failed   bool // some attempt failed
	okCount  int
	batchOK  map[string]int // request body -> successful attempts
}

func (u *verifFaultyUpstream) RoundTrip(req *http.Request) (*http.Response, error) {
	u.attempts++
	verifAssume(u.attempts <= u.max)
	key := ""
	if req.GetBody != nil {
		if rc, err := req.GetBody(); err == nil {
			b, _ := io.ReadAll(rc)
			key = string(b)
		}
	}
	if u.batchOK == nil {
		u.batchOK = map[string]int{}
	}
	u.batchOK[key] += 0
	switch nondetIntIn(0, 2) {
	case 0:
		u.okCount++
		u.batchOK[key]++
		return &http.Response{StatusCode: 200, Body: io.NopCloser(bytes.NewReader(nil)), Header: http.Header{}}, nil
	case 1:
		u.failed = true
		return nil, errors.New("connection reset")
	}
	u.failed = true
	return &http.Response{StatusCode: 503, Body: io.NopCloser(bytes.NewReader(nil)), Header: http.Header{}}, nil
}

func VerifC16_OTLP() {
	up := &verifFaultyUpstream{max: 3}
	bd := &Backend{
		metricsEndpoint:       "http://otlp/v1/metrics",
		convertTimersToGauges: true,
		is:                    data.NewInstrumentationScope("gostatsd/aggregation", "test"),
		logger:                logrus.StandardLogger(),
		client:                &http.Client{Transport: up},
		requestsBufferSem:     make(chan struct{}, 1),
		metricsPerBatch:       nondetIntIn(1, 2),
		maxRetries:            nondetIntIn(0, 2),
		maxRequestElapsedTime: 30 * time.Second,
	}
	mm := gostatsd.NewMetricMap(false)
	mm.Gauges["g"] = map[string]gostatsd.Gauge{"": {Value: 1}}
	if nondetBool() {
		mm.Gauges["h"] = map[string]gostatsd.Gauge{"": {Value: 2}}
	}
	calls := 0
	var got []error
	bd.SendMetricsAsync(context.Background(), mm, func(errs []error) {
		calls++
		got = errs
	})
	verifAssert(calls == 1, "otlp: the completion callback is invoked exactly once under transport faults")
	if !up.failed {
		verifAssert(len(got) == 0, "otlp: no error when every attempt succeeded")
		verifReach("clean")
	}
	if up.okCount == 0 {
		verifAssert(len(got) > 0, "otlp: an error is reported when no attempt succeeded")
		verifReach("all-failed")
	}
	// per batch (a batch is identified by its request body): a batch that was attempted and
	// never accepted means data was dropped, the callback must say so even if another batch
	// was accepted
	for _, n := range up.batchOK {
		if n == 0 {
			verifAssert(len(got) > 0, "otlp: an error is reported when some batch was never accepted")
			if up.okCount > 0 {
				verifReach("partial-failure")
			}
		}
	}
}
