package otlp

import (
	"github.com/atlassian/gostatsd/pkg/backends/otlp/internal/data"
)

// VerifC17_OTLPGroups: inserting k metrics over r resources with a symbolic batch size: no batch
// holds more than the batch size and all k metrics are in exactly one batch.
func VerifC17_OTLPGroups() {
	batch := nondetIntIn(1, 3)
	k := nondetIntIn(0, 5)
	g := newGroups(batch)
	is := data.NewInstrumentationScope("x", "1")
	for i := 0; i < 5; i++ {
		if i < k {
			res := data.NewMap()
			if nondetBool() {
				res.Insert("env", "prod")
			}
			g.insert(is, res, data.NewMetric("m"))
		}
	}
	total := 0
	for _, b := range g.batches {
		n := b.lenMetrics()
		verifAssert(n <= batch, "otlp: a batch holds more metrics than the batch size") // (a trailing empty batch is created when the last insert fills a batch)
		total += n
	}
	verifAssert(total == k, "otlp: every metric is in exactly one batch")
	verifReach("grouped")
}
