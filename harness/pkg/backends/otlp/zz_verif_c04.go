package otlp

import (
	"bytes"
	"context"
	"io"
	"net/http"
	"time"

	"github.com/sirupsen/logrus"

	"github.com/atlassian/gostatsd"
	"github.com/atlassian/gostatsd/pkg/backends/otlp/internal/data"
)

type verifOTLPUpstream struct {
	requests int
	status   int
}

func (u *verifOTLPUpstream) RoundTrip(req *http.Request) (*http.Response, error) {
	u.requests++
	return &http.Response{StatusCode: u.status, Body: io.NopCloser(bytes.NewReader(nil)), Header: http.Header{}}, nil
}

// VerifC04_OTLP: the real SendMetricsAsync (grouping into batches, data.* constructors incl. the
// generic histogram bucket conversion, request construction) on reachable aggregates; the
// upstream answers 200 through a harness RoundTripper.
func VerifC04_OTLP() {
	up := &verifOTLPUpstream{status: 200}
	bd := &Backend{
		metricsEndpoint:       "http://otlp/v1/metrics",
		logsEndpoint:          "http://otlp/v1/logs",
		convertTimersToGauges: nondetBool(),
		is:                    data.NewInstrumentationScope("gostatsd/aggregation", "test"),
		logger:                logrus.StandardLogger(),
		client:                &http.Client{Transport: up},
		requestsBufferSem:     make(chan struct{}, 1),
		metricsPerBatch:       nondetIntIn(1, 3),
		maxRequestElapsedTime: 30 * time.Second,
	}
	if nondetBool() {
		bd.resourceKeys = gostatsd.Tags{"env"}
	}
	verifAggregates(func(mm *gostatsd.MetricMap) {
		calls := 0
		bd.SendMetricsAsync(context.Background(), mm, func(errs []error) {
			calls++
			verifAssert(len(errs) == 0, "otlp: no error when the upstream answers 200")
		})
		verifAssert(calls == 1, "otlp: the completion callback is invoked exactly once")
		verifAssert(up.requests >= 1, "otlp: at least one request is posted")
	})
}
