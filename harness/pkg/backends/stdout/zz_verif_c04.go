package stdout

import (
	"github.com/atlassian/gostatsd"
)

func VerifC04_Stdout() {
	var dis gostatsd.TimerSubtypes
	if nondetBool() {
		dis = gostatsd.TimerSubtypes{Lower: true, Upper: true, Count: true, CountPerSecond: true, Mean: true, Median: true, StdDev: true, Sum: true, SumSquares: true}
	}
	verifAggregates(func(mm *gostatsd.MetricMap) {
		buf := preparePayload(mm, &dis)
		verifAssert(buf.Len() > 0, "stdout: payload is not empty")
	})
}
