package stdout

import (
	"time"

	"github.com/atlassian/gostatsd"
	"github.com/atlassian/gostatsd/pkg/statsd"
)

// verifAggregates runs fn on every flushed map of a short history of the REAL aggregator, so
// that payload builders are only fed reachable aggregates:
//   shape 0: timer with two values, percentile +90          shape 1: timer with one value, percentile -90
//   shape 2: timer with two values, percentile -100 (k = n) shape 3: histogram timer, limit 2
//   shape 4: histogram timer, bucket limit 0 (empty, non-nil histogram)
//   shape 5: histogram timer whose bucket list is malformed (no parsable bound)
// each followed by Reset and a second Flush (the persisted idle series), alongside a counter, a
// gauge and a set, with and without tags/source.
func verifAggregates(fn func(mm *gostatsd.MetricMap)) {
	shape := nondetIntIn(0, 5)
	var dis gostatsd.TimerSubtypes
	if nondetBool() {
		dis = gostatsd.TimerSubtypes{Lower: true, Upper: true, Count: true, CountPerSecond: true, Mean: true, Median: true, StdDev: true, Sum: true, SumSquares: true,
			LowerPct: true, UpperPct: true, CountPct: true, MeanPct: true, SumPct: true, SumSquaresPct: true}
	}
	pct := []float64{90}
	limit := uint32(2)
	tags := gostatsd.Tags{"env:prod", "plain"}
	vals := []float64{1.5, 20}
	switch shape {
	case 1:
		pct = []float64{-90}
		vals = []float64{7}
	case 2:
		pct = []float64{-100, 50}
	case 3:
		tags = gostatsd.Tags{"gsd_histogram:1_10_oops_100", "env:prod"}
	case 4:
		tags = gostatsd.Tags{"gsd_histogram:1_10", "env:prod"}
		limit = 0
	case 5:
		tags = gostatsd.Tags{"gsd_histogram:x_y"}
	}
	a := statsd.NewMetricAggregator(pct, 0, 0, 0, 0, dis, limit)
	mm := gostatsd.NewMetricMap(false)
	src := gostatsd.Source("")
	if nondetBool() {
		src = "10.1.2.3"
	}
	mm.Timers["t.latency"] = map[string]gostatsd.Timer{"k": {Values: vals, SampledCount: float64(len(vals)), Timestamp: 10, Tags: tags, Source: src}}
	mm.Counters["c.hits"] = map[string]gostatsd.Counter{"k": {Value: 42, Timestamp: 10, Tags: gostatsd.Tags{"a:b"}, Source: src}}
	mm.Counters["statsd.internal"] = map[string]gostatsd.Counter{"": {Value: 1, Timestamp: 10}}
	mm.Gauges["g.level"] = map[string]gostatsd.Gauge{"": {Value: -3.25, Timestamp: 10, Source: src}}
	mm.Sets["s.users"] = map[string]gostatsd.Set{"k": {Values: map[string]struct{}{"u1": {}, "u2": {}}, Timestamp: 10, Tags: gostatsd.Tags{"x"}}}
	a.ReceiveMap(mm)
	a.Flush(10 * time.Second)
	a.Process(fn)
	verifReach("flushed")
	a.Reset()
	a.Flush(10 * time.Second)
	a.Process(fn)
	verifReach("flushed-idle")
}
