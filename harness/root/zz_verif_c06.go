package gostatsd

// C06: Split is a deterministic partition.

type verifKey struct {
	name, tags string
	typ        int
}

func verifPut(mm *MetricMap, k verifKey, v int64) {
	switch k.typ {
	case 0:
		if _, ok := mm.Counters[k.name]; !ok {
			mm.Counters[k.name] = map[string]Counter{}
		}
		mm.Counters[k.name][k.tags] = Counter{Value: v}
	case 1:
		if _, ok := mm.Gauges[k.name]; !ok {
			mm.Gauges[k.name] = map[string]Gauge{}
		}
		mm.Gauges[k.name][k.tags] = Gauge{Value: float64(v)}
	case 2:
		if _, ok := mm.Timers[k.name]; !ok {
			mm.Timers[k.name] = map[string]Timer{}
		}
		mm.Timers[k.name][k.tags] = Timer{Values: []float64{float64(v)}, SampledCount: 1}
	default:
		if _, ok := mm.Sets[k.name]; !ok {
			mm.Sets[k.name] = map[string]Set{}
		}
		mm.Sets[k.name][k.tags] = Set{Values: map[string]struct{}{"m": {}}, Timestamp: Nanotime(v)}
	}
}

// verifFind returns in how many of the parts the series occurs, the index of the last one and
// whether its payload equals v.
func verifFind(parts []*MetricMap, k verifKey, v int64) (count int, idx int, same bool) {
	idx = -1
	for i, p := range parts {
		switch k.typ {
		case 0:
			if c, ok := p.Counters[k.name][k.tags]; ok {
				count++
				idx = i
				same = c.Value == v
			}
		case 1:
			if c, ok := p.Gauges[k.name][k.tags]; ok {
				count++
				idx = i
				same = c.Value == float64(v)
			}
		case 2:
			if c, ok := p.Timers[k.name][k.tags]; ok {
				count++
				idx = i
				same = len(c.Values) == 1 && c.Values[0] == float64(v)
			}
		default:
			if c, ok := p.Sets[k.name][k.tags]; ok {
				count++
				idx = i
				_, has := c.Values["m"]
				same = has && len(c.Values) == 1 && c.Timestamp == Nanotime(v)
			}
		}
	}
	return
}

func verifSize(mm *MetricMap) int {
	n := 0
	for _, m := range mm.Counters {
		n += len(m)
	}
	for _, m := range mm.Gauges {
		n += len(m)
	}
	for _, m := range mm.Timers {
		n += len(m)
	}
	for _, m := range mm.Sets {
		n += len(m)
	}
	return n
}

// verifConcrete case-splits a small symbolic integer so that it is concrete afterwards.
func verifConcrete(x, lo, hi int) int {
	for k := lo; k <= hi; k++ {
		if x == k {
			return k
		}
	}
	verifAssume(false)
	return lo
}

func verifC06Split(nSeries, nameLen, tagLen, maxShards int, mixedTypes bool) {
	c := verifConcrete(nondetIntIn(1, maxShards), 1, maxShards)
	mm := NewMetricMap(false)
	typ0 := verifConcrete(nondetIntIn(0, 3), 0, 3)
	keys := make([]verifKey, nSeries)
	vals := make([]int64, nSeries)
	for i := range keys {
		nl := nameLen
		if nameLen < 0 {
			// per-series name length: empty or one byte (symbolic)
			nl = verifConcrete(nondetIntIn(0, 1), 0, 1)
		}
		keys[i] = verifKey{name: nondetString(nl), tags: nondetString(tagLen), typ: typ0}
		if mixedTypes && i > 0 {
			keys[i].typ = verifConcrete(nondetIntIn(0, 3), 0, 3)
		}
		vals[i] = int64(nondetInt32())
		// distinct series only (a repeated key is the same series: nothing to check)
		for j := 0; j < i; j++ {
			verifAssume(keys[j].typ != keys[i].typ || keys[j].name != keys[i].name || keys[j].tags != keys[i].tags)
		}
		verifPut(mm, keys[i], vals[i])
	}
	parts := mm.Split(c)
	verifAssert(len(parts) == c, "Split returns one map per shard")
	total := 0
	for _, p := range parts {
		total += verifSize(p)
	}
	verifAssert(total == nSeries, "shards together do not have as many series as the batch")
	idx0 := -1
	for i := range keys {
		n, idx, same := verifFind(parts, keys[i], vals[i])
		verifAssert(n == 1, "series is not in exactly one shard")
		verifAssert(same, "series payload changed by Split")
		if i == 0 {
			idx0 = idx
		}
	}
	verifReach("split")
	// determinism: the same series in different batches (visited first, or after another series)
	// goes to the same shard index
	other := verifKey{name: nondetString(1), tags: "", typ: keys[0].typ}
	verifAssume(other.name != keys[0].name || other.tags != keys[0].tags)
	for order := 0; order < 2; order++ {
		mm2 := NewMetricMap(false)
		if order == 0 {
			verifPut(mm2, keys[0], vals[0])
			verifPut(mm2, other, 1)
		} else {
			verifPut(mm2, other, 1)
			verifPut(mm2, keys[0], vals[0])
		}
		parts2 := mm2.Split(c)
		n, idx, _ := verifFind(parts2, keys[0], vals[0])
		verifAssert(n == 1 && idx == idx0, "shard of a series depends on the rest of the batch")
	}
	verifReach("determinism")
}

func VerifC06_Split_1_1_0_3() { verifC06Split(1, 1, 0, 3, false) }
func VerifC06_Split_2_1_1_3() { verifC06Split(2, 1, 1, 3, false) }
func VerifC06_Split_2_2_1_4() { verifC06Split(2, 2, 1, 4, false) }
func VerifC06_Split_3_1_1_3() { verifC06Split(3, 1, 1, 3, false) }
func VerifC06_Split_3_2_2_6() { verifC06Split(3, 2, 2, 6, false) }
func VerifC06_Split_2_0_0_2() { verifC06Split(2, 0, 1, 2, false) }
func VerifC06_Split_4_1_1_4() { verifC06Split(4, 1, 1, 4, false) }

func VerifC06_SplitAnyName_2_3() { verifC06Split(2, -1, 1, 3, false) }
func VerifC06_SplitAnyName_3_2() { verifC06Split(3, -1, 0, 2, false) }
func VerifC06_SplitMixed_2_1_1_3() { verifC06Split(2, 1, 1, 3, true) }
func VerifC06_SplitMixed_3_1_0_2() { verifC06Split(3, 1, 0, 2, true) }

func VerifC06_Twin() {
	verifC06Split(2, 1, 1, 3, false)
	verifAssert(false, "twin-false")
}
