package gostatsd

// C07: merging is independent of order and grouping. Per metric type: three maps A, B, C over a
// universe of one name and two tag keys (presence symbolic), merged in every order and
// bracketing; every result must satisfy the order-free oracle.

func verifMinMax(a, b float64) (float64, float64) {
	lo, hi := a, b
	if a > b {
		lo, hi = b, a
	}
	return lo, hi
}

// verifSort6 sorts six values with a sorting network (no data-dependent control flow).
func verifSort6(v [6]float64) [6]float64 {
	pairs := [][2]int{{0, 5}, {1, 3}, {2, 4}, {1, 2}, {3, 4}, {0, 3}, {2, 5}, {0, 1}, {2, 3}, {4, 5}, {1, 2}, {3, 4}}
	for _, p := range pairs {
		v[p[0]], v[p[1]] = verifMinMax(v[p[0]], v[p[1]])
	}
	return v
}

var verifTagKeys = []string{"", "t:1"}

type verifInput struct {
	present [2]bool
	cval    [2]int64
	ts      [2]Nanotime
	gval    [2]float64
	tvals   [2][]float64
	sampled [2]float64
	members [2][2]bool // membership of "x", "y"
}

func verifMkInput(typ int, maxTimerVals int, nk int) verifInput {
	var in verifInput
	for k := 0; k < nk; k++ {
		in.present[k] = nondetBool()
		in.ts[k] = Nanotime(nondetInt64In(0, 1<<40))
		switch typ {
		case 0:
			in.cval[k] = nondetInt64In(-(1 << 40), 1<<40)
		case 1:
			in.gval[k] = nondetFloat64()
		case 2:
			n := nondetIntIn(0, maxTimerVals)
			for j := 0; j < maxTimerVals; j++ {
				if j < n {
					in.tvals[k] = append(in.tvals[k], nondetFloat64())
				}
			}
			in.sampled[k] = nondetFloat64()
		default:
			in.members[k][0] = nondetBool()
			in.members[k][1] = nondetBool()
		}
	}
	return in
}

func (in verifInput) build(typ int) *MetricMap {
	mm := NewMetricMap(false)
	for k := 0; k < 2; k++ {
		if !in.present[k] {
			continue
		}
		tk := verifTagKeys[k]
		switch typ {
		case 0:
			if mm.Counters["n"] == nil {
				mm.Counters["n"] = map[string]Counter{}
			}
			mm.Counters["n"][tk] = Counter{Value: in.cval[k], Timestamp: in.ts[k]}
		case 1:
			if mm.Gauges["n"] == nil {
				mm.Gauges["n"] = map[string]Gauge{}
			}
			mm.Gauges["n"][tk] = Gauge{Value: in.gval[k], Timestamp: in.ts[k]}
		case 2:
			if mm.Timers["n"] == nil {
				mm.Timers["n"] = map[string]Timer{}
			}
			mm.Timers["n"][tk] = Timer{Values: append([]float64{}, in.tvals[k]...), SampledCount: in.sampled[k], Timestamp: in.ts[k]}
		default:
			if mm.Sets["n"] == nil {
				mm.Sets["n"] = map[string]Set{}
			}
			vals := map[string]struct{}{}
			if in.members[k][0] {
				vals["x"] = struct{}{}
			}
			if in.members[k][1] {
				vals["y"] = struct{}{}
			}
			mm.Sets["n"][tk] = Set{Values: vals, Timestamp: in.ts[k]}
		}
	}
	return mm
}

func verifMaxTs(a, b Nanotime) Nanotime {
	m := a
	if b > a {
		m = b
	}
	return m
}

// verifCheckMerged asserts the order-free oracle on result r for inputs ins.
func verifCheckMerged(r *MetricMap, ins [3]verifInput, typ int) {
	for k := 0; k < 2; k++ {
		tk := verifTagKeys[k]
		any := ins[0].present[k] || ins[1].present[k] || ins[2].present[k]
		var maxTs Nanotime
		for i := 0; i < 3; i++ {
			if ins[i].present[k] {
				maxTs = verifMaxTs(maxTs, ins[i].ts[k])
			}
		}
		switch typ {
		case 0:
			c, ok := r.Counters["n"][tk]
			verifAssert(ok == any, "counter series present iff it was in an input")
			if !ok {
				continue
			}
			var sum int64
			for i := 0; i < 3; i++ {
				if ins[i].present[k] {
					sum += ins[i].cval[k]
				}
			}
			verifAssert(c.Value == sum, "merged counter is not the sum of the inputs")
			verifAssert(c.Timestamp == maxTs, "merged counter does not keep the newest timestamp")
		case 1:
			g, ok := r.Gauges["n"][tk]
			verifAssert(ok == any, "gauge series present iff it was in an input")
			if !ok {
				continue
			}
			verifAssert(g.Timestamp == maxTs, "merged gauge does not keep the newest timestamp")
			carrier := false
			for i := 0; i < 3; i++ {
				if ins[i].present[k] && ins[i].ts[k] == maxTs && ins[i].gval[k] == g.Value {
					carrier = true
				}
			}
			verifAssert(carrier, "merged gauge value is not that of a datapoint carrying the newest timestamp")
		case 2:
			t, ok := r.Timers["n"][tk]
			verifAssert(ok == any, "timer series present iff it was in an input")
			if !ok {
				continue
			}
			var all [6]float64
			n := 0
			sampled := float64(0)
			for i := 0; i < 3; i++ {
				if ins[i].present[k] {
					for _, v := range ins[i].tvals[k] {
						all[n] = v
						n++
					}
					sampled += ins[i].sampled[k]
				}
			}
			verifAssert(len(t.Values) == n, "merged timer has a different number of values than the inputs together")
			if len(t.Values) != n {
				continue
			}
			var got [6]float64
			copy(got[:], t.Values)
			// pad both with the same large sentinel so that the networks sort equal multisets equally
			for j := n; j < 6; j++ {
				all[j] = 1e300
				got[j] = 1e300
			}
			se, sg := verifSort6(all), verifSort6(got)
			for j := 0; j < 6; j++ {
				verifAssert(se[j] == sg[j], "merged timer values are not the multiset union of the inputs")
			}
			verifAssert(t.SampledCount == sampled, "merged sampled count is not the sum of the inputs")
			verifAssert(t.Timestamp == maxTs, "merged timer does not keep the newest timestamp")
		default:
			s, ok := r.Sets["n"][tk]
			verifAssert(ok == any, "set series present iff it was in an input")
			if !ok {
				continue
			}
			for mi, member := range []string{"x", "y"} {
				want := false
				for i := 0; i < 3; i++ {
					if ins[i].present[k] && ins[i].members[k][mi] {
						want = true
					}
				}
				_, has := s.Values[member]
				verifAssert(has == want, "merged set is not the union of the inputs")
			}
			verifAssert(s.Timestamp == maxTs, "merged set does not keep the newest timestamp")
		}
	}
}

var verifPerms = [][3]int{{0, 1, 2}, {0, 2, 1}, {1, 0, 2}, {1, 2, 0}, {2, 0, 1}, {2, 1, 0}}

func verifC07Merge(typ int, maxTimerVals int, nk int) {
	var ins [3]verifInput
	for i := range ins {
		ins[i] = verifMkInput(typ, maxTimerVals, nk)
	}
	for _, p := range verifPerms {
		// left bracketing: ((X+Y)+Z)
		r := NewMetricMap(false)
		r.Merge(ins[p[0]].build(typ))
		r.Merge(ins[p[1]].build(typ))
		r.Merge(ins[p[2]].build(typ))
		verifCheckMerged(r, ins, typ)
		// right bracketing: X+(Y+Z)
		yz := ins[p[1]].build(typ)
		yz.Merge(ins[p[2]].build(typ))
		x := ins[p[0]].build(typ)
		x.Merge(yz)
		verifCheckMerged(x, ins, typ)
	}
	// MergeMaps over the three
	mmAll := MergeMaps([]*MetricMap{ins[0].build(typ), ins[1].build(typ), ins[2].build(typ)})
	verifCheckMerged(mmAll, ins, typ)
	verifReach("merged")
}

func VerifC07_Counter()  { verifC07Merge(0, 0, 2) }
func VerifC07_Gauge()    { verifC07Merge(1, 0, 2) }
func VerifC07_Timer1()   { verifC07Merge(2, 1, 1) }
func VerifC07_Timer2()   { verifC07Merge(2, 2, 1) }
func VerifC07_Timer1x2() { verifC07Merge(2, 1, 2) }
func VerifC07_Set()      { verifC07Merge(3, 0, 1) }
func VerifC07_Set2()     { verifC07Merge(3, 0, 2) }

func VerifC07_Twin() {
	verifC07Merge(0, 0, 2)
	verifAssert(false, "twin-false")
}

// VerifC07_Slots: three raw datapoints of one type (name n, tag set one of two, symbolic value,
// sample rate 1 or 0.5 for counters and timers) are received - MetricMap.Receive, as the
// consolidator's ReceiveMetrics does - into two slot maps by a symbolic assignment and the
// slots merged; the result must be the same as receiving everything into one map: counter
// totals, the multiset of timer values with the sampled count = sum of 1/rate, set members,
// for every series.
func verifC07Slots(typ int) {
	type dp struct {
		tag   int
		val   int64
		half  bool
		slot  int
		which int
	}
	var d [3]dp
	for i := range d {
		d[i] = dp{tag: nondetIntIn(0, 1), val: int64(nondetIntIn(1, 9)), half: nondetBool(), slot: nondetIntIn(0, 1), which: nondetIntIn(0, 1)}
	}
	mk := func(x dp) *Metric {
		m := &Metric{Name: "n", Rate: 1, Timestamp: 5}
		if x.tag == 1 {
			m.Tags = Tags{"t:1"}
		}
		switch typ {
		case 0:
			m.Type, m.Value = COUNTER, float64(x.val)
			if x.half {
				m.Rate = 0.5
			}
		case 2:
			m.Type, m.Value = TIMER, float64(x.val)
			if x.half {
				m.Rate = 0.5
			}
		default:
			m.Type = SET
			m.StringValue = []string{"x", "y"}[x.which]
		}
		return m
	}
	slots := [2]*MetricMap{NewMetricMap(false), NewMetricMap(false)}
	one := NewMetricMap(false)
	for _, x := range d {
		slots[x.slot].Receive(mk(x))
		one.Receive(mk(x))
	}
	merged := MergeMaps([]*MetricMap{slots[0], slots[1]})
	for k := 0; k < 2; k++ {
		tk := verifTagKeys[k]
		switch typ {
		case 0:
			a, aok := merged.Counters["n"][tk]
			b, bok := one.Counters["n"][tk]
			verifAssert(aok == bok && a.Value == b.Value, "slots: counter total does not depend on the slot assignment")
		case 2:
			a, aok := merged.Timers["n"][tk]
			b, bok := one.Timers["n"][tk]
			verifAssert(aok == bok && len(a.Values) == len(b.Values), "slots: number of timer values does not depend on the slot assignment")
			verifAssert(a.SampledCount == b.SampledCount, "slots: sampled count (sum of 1/rate) does not depend on the slot assignment")
			var want float64
			var sa, sb float64
			for _, x := range d {
				if x.tag == k {
					if x.half {
						want += 2
					} else {
						want++
					}
				}
			}
			for _, v := range a.Values {
				sa += v
			}
			for _, v := range b.Values {
				sb += v
			}
			verifAssert(sa == sb, "slots: timer values are the multiset union (sum compared)")
			verifAssert(!aok || a.SampledCount == want, "slots: sampled count is the sum of 1/rate over the datapoints of the series")
		default:
			a, aok := merged.Sets["n"][tk]
			b, bok := one.Sets["n"][tk]
			verifAssert(aok == bok && len(a.Values) == len(b.Values), "slots: set members do not depend on the slot assignment")
			for m := range b.Values {
				_, has := a.Values[m]
				verifAssert(has, "slots: set members do not depend on the slot assignment")
			}
		}
	}
	verifReach("slots")
}

func VerifC07_SlotsCounter() { verifC07Slots(0) }
func VerifC07_SlotsTimer()   { verifC07Slots(2) }
func VerifC07_SlotsSet()     { verifC07Slots(3) }
