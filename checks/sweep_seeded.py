#!/usr/bin/env python3
"""Runs every seeded change under /verif/seeded against the checks named in its meta.json (quick tier, scratch worktrees,
up to N in parallel) and writes seeded/RESULTS.md."""
import json, os, subprocess, sys, glob, concurrent.futures
VERIF = os.path.dirname(os.path.dirname(os.path.abspath(__file__)))
par = int(sys.argv[1]) if len(sys.argv) > 1 else 3
only = sys.argv[2:] 
jobs = []
for d in sorted(glob.glob(os.path.join(VERIF, "seeded", "*"))):
    mf = os.path.join(d, "meta.json")
    if not os.path.isfile(mf):
        continue
    meta = json.load(open(mf))
    name = os.path.basename(d)
    if only and not any(o in name for o in only):
        continue
    checks = meta.get("detected_by_checks") or meta.get("property")
    if isinstance(checks, str):
        checks = [checks]
    jobs.append((name, os.path.join(d, "patch.diff"), checks))

def run(job):
    name, patch, checks = job
    r = subprocess.run([os.path.join(VERIF, "checks", "mutate"), "run", patch] + checks, capture_output=True, text=True)
    try:
        res = json.loads(r.stdout)
    except Exception:
        return name, {"error": (r.stdout + r.stderr)[-400:]}
    return name, res

rows = []
with concurrent.futures.ThreadPoolExecutor(max_workers=par) as ex:
    for name, res in ex.map(run, jobs):
        if "error" in res:
            rows.append((name, "?", "ERROR " + res["error"].replace("\n", " ")[:200]))
            print(name, "ERROR", flush=True)
            continue
        for c, v in res.items():
            first = [l for l in v["lines"] if l.startswith(("VIOLATION", "CHECK-PROBLEM"))][:1]
            ent = [l.strip() for l in v["lines"] if l.startswith("  entry=")][:1]
            verdict = {0: "MISSED (exit 0)", 1: "caught (VIOLATION)", 2: "check problem (exit 2)"}.get(v["exit"], "exit %s" % v["exit"])
            detail = (ent[0].split(" site=")[0] if ent else (first[0][:120] if first else ""))
            rows.append((name, c, verdict + " " + detail))
            print(name, c, verdict, detail, flush=True)
# a filtered run replaces the rows of the changes it ran and keeps the others
path = os.path.join(VERIF, "seeded", "RESULTS.md")
if only and os.path.exists(path):
    ran = set(r[0] for r in rows)
    for ln in open(path):
        parts = [x.strip() for x in ln.strip().strip("|").split("|")]
        if len(parts) == 3 and parts[0] not in ("change", "---") and parts[0] not in ran:
            rows.append(tuple(parts))
rows.sort()
with open(path, "w") as f:
    f.write("# Seeded changes versus the quick checks (written by checks/sweep_seeded.py)\n\n| change | check | result |\n|---|---|---|\n")
    for r in rows:
        f.write("| %s | %s | %s |\n" % r)
