"""Per-property check specifications: which harness entries run in which tier, with what budgets,
what must be reachable (vacuity guard), and the text that goes into the evidence."""

STUBS_COMMON = [
    "goroutines: none are scheduled; `go f()` runs f to completion at the spawn point (single-threaded engine)",
    "sync.Mutex/RWMutex are no-ops, sync/atomic are plain memory operations, sync.Pool is LIFO reuse (maximal reuse)",
    "logrus and stats.Statser calls are no-ops / executed NullStatser code",
    "Go slices are modelled with the host runtime's append growth for 16-byte elements: cap() after append may differ from the real runtime",
    "map iteration order = insertion order (Go's randomised order is not explored unless a harness says so)",
]

PF_STUB = ("strconv.ParseFloat on a symbolic string of length L is the pair of uninterpreted functions pfok_L/pfval_L of its bytes "
           "(congruent: equal strings parse equally), with ground facts for ~50 concrete strings computed by the real ParseFloat at run "
           "time, and every counterexample's strings re-checked against the real ParseFloat (CEGAR, <= 20 rounds)")

SPECS = {}

SPECS["C03"] = {
    "explanation": "Every byte string of the stated length (all 256 byte values, so NUL and newline included) is run symbolically through the "
                   "real Lexer.Run; the implicit Go panic conditions of every instruction reached (index, slice bounds, nil dereference, "
                   "division, type assertion, explicit panic) are the obligations, each decided by z3 under the path condition. A unit-level "
                   "harness starts lexEventBody from an arbitrary cursor with arbitrary uint32 declared title/text lengths, which is where "
                   "the 2^32 boundary lives; whole-line exploration cannot reach a 10-digit header within its byte bound.",
    "bounds": {
        "quick": "Lexer.Run: all byte strings of length 1..5; event body: all uint32 title/text lengths, all cursors, buffers of 4 and 8 arbitrary bytes",
        "thorough": "Lexer.Run: all byte strings of length 1..7; event body: buffers of 4, 8, 12 bytes",
    },
    "outside": ["datagrams longer than the byte bound", "zlib/lz4 decoders and proto.Unmarshal", "net/http panic isolation", "scheduler starvation"],
    "assumptions": STUBS_COMMON + [PF_STUB],
    "jobs": [
        {"pkg": "./internal/lexer", "harness": "internal/lexer", "mode": "machine", "nonterm_is_violation": True,
         "entries": {"quick": ["VerifC03_All1", "VerifC03_All2", "VerifC03_All3", "VerifC03_All4", "VerifC03_All5",
                               "VerifC03_EventBody4", "VerifC03_EventBody8", "VerifC03_Twin"],
                     "thorough": ["VerifC03_All1", "VerifC03_All2", "VerifC03_All3", "VerifC03_All4", "VerifC03_All5", "VerifC03_All6",
                                  "VerifC03_All7", "VerifC03_EventBody4", "VerifC03_EventBody8", "VerifC03_EventBody12", "VerifC03_Twin"]},
         "reach": {"VerifC03_All4": ["metric", "rejected"], "VerifC03_All5": ["metric", "rejected"], "VerifC03_EventBody8": ["done"]},
         "twin": {"VerifC03_Twin": True},
         "limits": {"quick": {"timeout": "600s"}, "thorough": {"timeout": "3000s"}}},
    ],
}

SPECS["C02"] = {
    "explanation": "Two harness families drive the real Lexer.Run symbolically. ALL-STRINGS: every byte string without NUL of the stated length; "
                   "asserted implications: accepted => exactly one of metric/event, non-empty name, non-NaN value whose text the real ParseFloat accepts, "
                   "finite positive rate, known type spelling after the value separator, non-empty separator-free tags; no name separator or no value "
                   "separator => rejected. GRAMMAR: the line is generated from symbolic pieces (key, value, one of the five type spellings, 0..3 attribute "
                   "fields of kind @rate / #tags / unknown) and the expected name (README normalisation, namespace), value, type, rate and ordered "
                   "non-empty tags are computed from the pieces, not by re-parsing; lines whose value or rate is not acceptable must be rejected. "
                   "EVENTS: _e{n,m}:title|text with symbolic title/text and 0..3 attribute fields (d h k p s t #), expected fields computed from the pieces.",
    "bounds": {
        "quick": "all strings of length 1..6 (namespace \"\" and \"ns\" at 5); grammar lines with key<=2, value<=2 bytes, <=1 attribute field of <=2 bytes; events title<=2, text<=3, <=2 fields of <=2 bytes",
        "thorough": "all strings of length 1..8 (ns at 7); grammar: <=3 fields of <=2 bytes, 1 field of 4 bytes; events: text<=4, <=3 fields",
    },
    "outside": ["lines longer than the byte bound", "NUL bytes (C03)", "the numeric meaning of value text: delegated to strconv.ParseFloat (stub below)",
                "empty attribute fields (||) - not part of the documented form"],
    "assumptions": STUBS_COMMON + [PF_STUB],
    "jobs": [
        {"pkg": "./internal/lexer", "harness": "internal/lexer", "mode": "machine", "nonterm_is_violation": True,
         "entries": {"quick": ["VerifC02_All1", "VerifC02_All2", "VerifC02_All3", "VerifC02_All4", "VerifC02_All5", "VerifC02_All6", "VerifC02_AllNs5",
                               "VerifC02_Gram_1_1_0", "VerifC02_Gram_2_1_0", "VerifC02_Gram_2_2_0",
                               "VerifC02_Gram_1_1_1x1", "VerifC02_Gram_1_1_1x2",
                               "VerifC02_Event_1_1_0", "VerifC02_Event_2_3_0", "VerifC02_Event_0_0_1x1", "VerifC02_Event_1_2_1x2", "VerifC02_Event_1_1_2x1",
                               "VerifC02_AllTwin", "VerifC02_GramTwin"],
                     "thorough": ["VerifC02_All1", "VerifC02_All2", "VerifC02_All3", "VerifC02_All4", "VerifC02_All5", "VerifC02_All6", "VerifC02_All7",
                                  "VerifC02_All8", "VerifC02_AllNs5", "VerifC02_AllNs7",
                                  "VerifC02_Gram_1_1_0", "VerifC02_Gram_2_1_0", "VerifC02_Gram_2_2_0", "VerifC02_Gram_3_1_0",
                                  "VerifC02_Gram_1_1_1x1", "VerifC02_Gram_1_1_1x2", "VerifC02_Gram_1_1_1x3", "VerifC02_Gram_1_1_2x1", "VerifC02_Gram_1_1_2x2",
                                  "VerifC02_Gram_2_1_2x2", "VerifC02_Gram_1_1_3x2", "VerifC02_Gram_1_1_1x4",
                                  "VerifC02_Event_1_1_0", "VerifC02_Event_2_3_0", "VerifC02_Event_0_0_1x1", "VerifC02_Event_1_2_1x2", "VerifC02_Event_1_1_2x1",
                                  "VerifC02_Event_1_2_2x2", "VerifC02_Event_2_4_1x3", "VerifC02_Event_1_1_3x1",
                                  "VerifC02_AllTwin", "VerifC02_GramTwin"]},
         "reach": {"VerifC02_All5": ["metric", "rejected"], "VerifC02_All6": ["metric", "rejected"],
                   "VerifC02_Gram_1_1_1x2": ["expect-accept", "expect-reject"], "VerifC02_Event_1_2_1x2": ["event-accepted"]},
         "twin": {"VerifC02_AllTwin": True, "VerifC02_GramTwin": True},
         "limits": {"quick": {"timeout": "900s"}, "thorough": {"timeout": "3000s"}}},
    ],
}
