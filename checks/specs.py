"""Per-property check specifications: which harness entries run in which tier, with what budgets,
what must be reachable (vacuity guard), and the text that goes into the evidence."""

STUBS_COMMON = [
    "goroutines: none are scheduled; `go f()` runs f to completion at the spawn point (single-threaded engine)",
    "sync.Mutex/RWMutex are no-ops, sync/atomic are plain memory operations, sync.Pool is LIFO reuse (maximal reuse)",
    "logrus and stats.Statser calls are no-ops / executed NullStatser code",
    "Go slices are modelled with the host runtime's append growth for 16-byte elements: cap() after append may differ from the real runtime",
    "map iteration order = insertion order (Go's randomised order is not explored unless a harness says so)",
]

PF_STUB = ("strconv.ParseFloat on a symbolic string of length L is the pair of uninterpreted functions pfok_L/pfval_L of its bytes "
           "(congruent: equal strings parse equally), with ground facts for ~50 concrete strings computed by the real ParseFloat at run "
           "time, and every counterexample's strings re-checked against the real ParseFloat (CEGAR, <= 20 rounds)")

SPECS = {}

SPECS["C03"] = {
    "explanation": "Every byte string of the stated length (all 256 byte values, so NUL and newline included) is run symbolically through the "
                   "real Lexer.Run; the implicit Go panic conditions of every instruction reached (index, slice bounds, nil dereference, "
                   "division, type assertion, explicit panic) are the obligations, each decided by z3 under the path condition. A unit-level "
                   "harness starts lexEventBody from an arbitrary cursor with arbitrary uint32 declared title/text lengths, which is where "
                   "the 2^32 boundary lives; whole-line exploration cannot reach a 10-digit header within its byte bound.",
    "bounds": {
        "quick": "Lexer.Run: all byte strings of length 1..5; event body: all uint32 title/text lengths, all cursors, buffers of 4 and 8 arbitrary bytes",
        "thorough": "Lexer.Run: all byte strings of length 1..7; event body: buffers of 4, 8, 12 bytes",
    },
    "outside": ["datagrams longer than the byte bound", "zlib/lz4 decoders and proto.Unmarshal", "net/http panic isolation", "scheduler starvation"],
    "assumptions": STUBS_COMMON + [PF_STUB],
    "jobs": [
        {"pkg": "./internal/lexer", "harness": "internal/lexer", "mode": "machine", "nonterm_is_violation": True,
         "entries": {"quick": ["VerifC03_All1", "VerifC03_All2", "VerifC03_All3", "VerifC03_All4", "VerifC03_All5",
                               "VerifC03_EventBody4", "VerifC03_EventBody8", "VerifC03_Twin"],
                     "thorough": ["VerifC03_All1", "VerifC03_All2", "VerifC03_All3", "VerifC03_All4", "VerifC03_All5", "VerifC03_All6",
                                  "VerifC03_All7", "VerifC03_EventBody4", "VerifC03_EventBody8", "VerifC03_EventBody12", "VerifC03_Twin"]},
         "reach": {"VerifC03_All4": ["metric", "rejected"], "VerifC03_All5": ["metric", "rejected"], "VerifC03_EventBody8": ["done"]},
         "twin": {"VerifC03_Twin": True},
         "limits": {"quick": {"timeout": "600s"}, "thorough": {"timeout": "3000s"}}},
    ],
}
