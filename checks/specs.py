"""Per-property check specifications: which harness entries run in which tier, with what budgets,
what must be reachable (vacuity guard), and the text that goes into the evidence."""

STUBS_COMMON = [
    "goroutines: none are scheduled; `go f()` runs f to completion at the spawn point (single-threaded engine)",
    "sync.Mutex/RWMutex are no-ops, sync/atomic are plain memory operations, sync.Pool is LIFO reuse (maximal reuse)",
    "logrus and stats.Statser calls are no-ops / executed NullStatser code",
    "Go slices are modelled with the host runtime's append growth for 16-byte elements: cap() after append may differ from the real runtime",
    "map iteration order = insertion order (Go's randomised order is not explored unless a harness says so)",
]

PF_STUB = ("strconv.ParseFloat on a symbolic string of length L is the pair of uninterpreted functions pfok_L/pfval_L of its bytes "
           "(congruent: equal strings parse equally), with ground facts for ~50 concrete strings computed by the real ParseFloat at run "
           "time, and every counterexample's strings re-checked against the real ParseFloat (CEGAR, <= 20 rounds)")

SPECS = {}

SPECS["C03"] = {
    "explanation": "Every byte string of the stated length (all 256 byte values, so NUL and newline included) is run symbolically through the "
                   "real Lexer.Run; the implicit Go panic conditions of every instruction reached (index, slice bounds, nil dereference, "
                   "division, type assertion, explicit panic) are the obligations, each decided by z3 under the path condition. A unit-level "
                   "harness starts lexEventBody from an arbitrary cursor with arbitrary uint32 declared title/text lengths, which is where "
                   "the 2^32 boundary lives; whole-line exploration cannot reach a 10-digit header within its byte bound.",
    "bounds": {
        "quick": "Lexer.Run: all byte strings of length 1..5; event body: all uint32 title/text lengths, all cursors, buffers of 4 and 8 arbitrary bytes",
        "thorough": "Lexer.Run: all byte strings of length 1..7; event body: buffers of 4, 8, 12 bytes; long rejected lines of 255, 256, 257, 300, 1500 bytes (quick: 256, 257, 300)",
    },
    "outside": ["datagrams longer than the byte bound other than the class-constrained long rejected lines", "the log call itself (rate limiter stub answers: do not log)", "zlib/lz4 decoders and proto.Unmarshal", "net/http panic isolation", "scheduler starvation"],
    "assumptions": STUBS_COMMON + [PF_STUB],
    "jobs": [
        {"pkg": "./internal/lexer", "harness": "internal/lexer", "mode": "machine", "nonterm_is_violation": True, "max_steps": 200000, "max_decisions": 300,
         "entries": {"quick": ["VerifC03_All1", "VerifC03_All2", "VerifC03_All3", "VerifC03_All4", "VerifC03_All5",
                               "VerifC03_EventBody4", "VerifC03_EventBody8", "VerifC03_Twin"],
                     "thorough": ["VerifC03_All1", "VerifC03_All2", "VerifC03_All3", "VerifC03_All4", "VerifC03_All5", "VerifC03_All6",
                                  "VerifC03_All7", "VerifC03_EventBody4", "VerifC03_EventBody8", "VerifC03_EventBody12", "VerifC03_Twin"]},
         "reach": {"VerifC03_All4": ["metric", "rejected"], "VerifC03_All5": ["metric", "rejected"], "VerifC03_EventBody8": ["done"]},
         "twin": {"VerifC03_Twin": True},
         "limits": {"quick": {"timeout": "600s"}, "thorough": {"timeout": "3000s"}}},
        {"pkg": "./pkg/statsd", "harness": "pkg/statsd", "mode": "machine", "workers": 8,
         "entries": {"quick": ["VerifC03_LongBad_256", "VerifC03_LongBad_257", "VerifC03_LongBad_300"],
                     "thorough": ["VerifC03_LongBad_255", "VerifC03_LongBad_256", "VerifC03_LongBad_257", "VerifC03_LongBad_300", "VerifC03_LongBad_1500"]},
         "reach": {"VerifC03_LongBad_257": ["long-bad"], "VerifC03_LongBad_300": ["long-bad"]},
         "limits": {"quick": {"timeout": "600s"}, "thorough": {"timeout": "3000s"}}},
    ],
}

SPECS["C02"] = {
    "explanation": "Two harness families drive the real Lexer.Run symbolically. ALL-STRINGS: every byte string without NUL of the stated length; "
                   "asserted implications: accepted => exactly one of metric/event, non-empty name, non-NaN value whose text the real ParseFloat accepts, "
                   "finite positive rate, known type spelling after the value separator, non-empty separator-free tags; no name separator or no value "
                   "separator => rejected. GRAMMAR: the line is generated from symbolic pieces (key, value, one of the five type spellings, 0..3 attribute "
                   "fields of kind @rate / #tags / unknown) and the expected name (README normalisation, namespace), value, type, rate and ordered "
                   "non-empty tags are computed from the pieces, not by re-parsing; lines whose value or rate is not acceptable must be rejected. "
                   "EVENTS: _e{n,m}:title|text with symbolic title/text and 0..3 attribute fields (d h k p s t #), expected fields computed from the pieces.",
    "bounds": {
        "quick": "all strings of length 1..6 (namespace \"\" and \"ns\" at 5); grammar lines with key<=2, value<=2 bytes, <=1 attribute field of <=2 bytes; events title<=2, text<=3, <=2 fields of <=2 bytes",
        "thorough": "all strings of length 1..8 (ns at 7); grammar: <=3 fields of <=2 bytes, 1 field of 4 bytes; events: text<=4, <=3 fields",
    },
    "outside": ["lines longer than the byte bound", "NUL bytes (C03)", "the numeric meaning of value text: delegated to strconv.ParseFloat (stub below)",
                "empty attribute fields (||) - not part of the documented form"],
    "assumptions": STUBS_COMMON + [PF_STUB],
    "jobs": [
        {"pkg": "./internal/lexer", "harness": "internal/lexer", "mode": "machine", "nonterm_is_violation": True, "max_steps": 200000, "max_decisions": 300,
         "entries": {"quick": ["VerifC02_All1", "VerifC02_All2", "VerifC02_All3", "VerifC02_All4", "VerifC02_All5", "VerifC02_All6", "VerifC02_AllNs5",
                               "VerifC02_Gram_1_1_0", "VerifC02_Gram_2_1_0", "VerifC02_Gram_2_2_0",
                               "VerifC02_Gram_1_1_1x1", "VerifC02_Gram_1_1_1x2", "VerifC02_Gram_1_1_1x3",
                               "VerifC02_Event_1_1_0", "VerifC02_Event_2_3_0", "VerifC02_Event_0_0_1x1", "VerifC02_Event_1_2_1x2", "VerifC02_Event_1_1_2x1",
                               "VerifC02_AllTwin", "VerifC02_GramTwin"],
                     "thorough": ["VerifC02_All1", "VerifC02_All2", "VerifC02_All3", "VerifC02_All4", "VerifC02_All5", "VerifC02_All6", "VerifC02_All7",
                                  "VerifC02_All8", "VerifC02_AllNs5", "VerifC02_AllNs7",
                                  "VerifC02_Gram_1_1_0", "VerifC02_Gram_2_1_0", "VerifC02_Gram_2_2_0", "VerifC02_Gram_3_1_0",
                                  "VerifC02_Gram_1_1_1x1", "VerifC02_Gram_1_1_1x2", "VerifC02_Gram_1_1_1x3", "VerifC02_Gram_1_1_2x1", "VerifC02_Gram_1_1_2x2",
                                  "VerifC02_Gram_2_1_2x2", "VerifC02_Gram_1_1_3x2", "VerifC02_Gram_1_1_1x4",
                                  "VerifC02_Event_1_1_0", "VerifC02_Event_2_3_0", "VerifC02_Event_0_0_1x1", "VerifC02_Event_1_2_1x2", "VerifC02_Event_1_1_2x1",
                                  "VerifC02_Event_1_2_2x2", "VerifC02_Event_2_4_1x3", "VerifC02_Event_1_1_3x1",
                                  "VerifC02_AllTwin", "VerifC02_GramTwin"]},
         "reach": {"VerifC02_All5": ["metric", "rejected"], "VerifC02_All6": ["metric", "rejected"],
                   "VerifC02_Gram_1_1_1x2": ["expect-accept", "expect-reject"], "VerifC02_Event_1_2_1x2": ["event-accepted"]},
         "twin": {"VerifC02_AllTwin": True, "VerifC02_GramTwin": True},
         "limits": {"quick": {"timeout": "900s"}, "thorough": {"timeout": "3000s"}}},
    ],
}


MATH_NOTE = ("math mode: Go integers are SMT Ints with conservative intervals; an operation whose interval leaves the Go type's range gets an explicit "
             "mod 2^w wrap, so integer semantics stay exact; float64 is Real (exact arithmetic: rounding ignored, NaN/Inf excluded)")

SPECS["C06"] = {
    "explanation": "The real MetricMap.Split / Bucket / hash/adler32 are executed on a map of 1..4 series with symbolic names and tag keys (every byte "
                   "value, empty strings allowed), a symbolic metric type and a symbolic shard count. Asserted: one output map per shard; each input "
                   "series occurs in exactly one of them with an unchanged payload; the sizes add up (no foreign series); and the shard index of a series "
                   "is the same in a second, different batch that shares only that series (determinism: the index is a function of the series identity "
                   "and the shard count only). The hash itself is not pinned to adler32. DISPATCH: the real BackendHandler.DispatchMetricMap (workers not running) on a batch of 1..3 counter series with symbolic names and tag sets for 1..4 workers: every series reaches exactly one worker queue, the one it reaches when dispatched alone, empty shards are not queued, nothing else arrives.",
    "bounds": {"quick": "1..3 series, names <= 1 byte, tag keys <= 1 byte, shard counts 1..3; mixed types for 2 series",
               "thorough": "1..4 series, names <= 2 bytes, tag keys <= 2 bytes, shard counts 1..6; mixed types for 3 series"},
    "outside": ["maps with more than 4 series (the per-series argument does not depend on the batch size)", "queue hand-off to the worker of the same index (C01)"],
    "assumptions": STUBS_COMMON + [MATH_NOTE],
    "jobs": [
        {"pkg": ".", "harness": "root", "mode": "math",
         "entries": {"quick": ["VerifC06_Split_1_1_0_3", "VerifC06_Split_2_1_1_3", "VerifC06_Split_3_1_1_3", "VerifC06_Split_2_0_0_2", "VerifC06_SplitAnyName_2_3", "VerifC06_SplitAnyName_3_2", "VerifC06_SplitMixed_2_1_1_3", "VerifC06_Twin"],
                     "thorough": ["VerifC06_Split_1_1_0_3", "VerifC06_Split_2_1_1_3", "VerifC06_Split_2_2_1_4", "VerifC06_Split_3_1_1_3", "VerifC06_Split_3_2_2_6",
                                  "VerifC06_Split_2_0_0_2", "VerifC06_SplitAnyName_2_3", "VerifC06_SplitAnyName_3_2", "VerifC06_Split_4_1_1_4", "VerifC06_SplitMixed_2_1_1_3", "VerifC06_SplitMixed_3_1_0_2", "VerifC06_Twin"]},
         "reach": {"*": ["split", "determinism"]},
         "twin": {"VerifC06_Twin": True},
         "limits": {"quick": {"timeout": "600s"}, "thorough": {"timeout": "3000s"}}},
        {"pkg": "./pkg/statsd", "harness": "pkg/statsd", "mode": "math",
         "entries": {"quick": ["VerifC06_Dispatch"]}, "reach": {"*": ["dispatched"]}, "limits": {"quick": {"timeout": "600s"}}},
    ],
}

SPECS["C07"] = {
    "explanation": "Per metric type, three maps A, B, C over a universe of one name and one or two tag keys (presence of each series symbolic; counter values, "
                   "timestamps, gauge values, 0..2 timer values with sampled counts, set membership of two members all symbolic) are merged with the real "
                   "MetricMap.Merge in all 6 permutations x both bracketings ((X+Y)+Z and X+(Y+Z)) and with MergeMaps; every one of the 13 results must satisfy "
                   "the order-free oracle: counter = sum, timer values = multiset union (compared after a sorting network, no data-dependent control flow) "
                   "with sampled counts added, set = union, every series keeps the newest timestamp, and a gauge ends with the value of a datapoint carrying "
                   "the newest timestamp (membership, because ties may legitimately resolve either way). SLOTS: three raw datapoints of one type (tag set one of two, symbolic value, "
                   "sample rate 1 or 0.5) received with MetricMap.Receive into two consolidator-slot maps by a symbolic assignment and merged equal the same datapoints received into one "
                   "map: counter totals, number and sum of timer values, sampled count = sum of 1/rate, set members.",
    "bounds": {"quick": "3 maps; counters/gauges: 2 tag keys; timers: 1 tag key, <= 2 values per input; sets: 1 tag key, 2 possible members",
               "thorough": "same plus timers and sets over 2 tag keys (budgeted)"},
    "outside": ["float64 rounding: sums are compared over the reals (float addition is not associative, so a bit-exact claim would be false of any implementation)",
                "the consolidator's channel hand-off and the cloud/tag handlers' use of the same merge functions (C10, C11 cover their own merges)",
                "more than three maps (grouping of more follows by induction from associativity + commutativity of three)"],
    "assumptions": STUBS_COMMON + [MATH_NOTE, "counter values and timestamps are declared in [-2^40, 2^40] / [0, 2^40] so that no wrap term is needed"],
    "jobs": [
        {"pkg": ".", "harness": "root", "mode": "math",
         "entries": {"quick": ["VerifC07_Counter", "VerifC07_Gauge", "VerifC07_Timer1", "VerifC07_Timer2", "VerifC07_Set", "VerifC07_SlotsCounter", "VerifC07_SlotsTimer", "VerifC07_SlotsSet", "VerifC07_Twin"],
                     "thorough": ["VerifC07_Counter", "VerifC07_Gauge", "VerifC07_Timer1", "VerifC07_Timer2", "VerifC07_Set", "VerifC07_SlotsCounter", "VerifC07_SlotsTimer", "VerifC07_SlotsSet", "VerifC07_Twin"]},
         "reach": {"*": ["merged"], "VerifC07_SlotsCounter": ["slots"], "VerifC07_SlotsTimer": ["slots"], "VerifC07_SlotsSet": ["slots"]},
         "twin": {"VerifC07_Twin": True},
         "limits": {"quick": {"timeout": "600s"}, "thorough": {"timeout": "3000s"}}},
    ],
}


TIME_MODEL = ("time.Time is modelled as {set-flag, Unix nanoseconds, nil location}: Unix/UnixNano/Add/Sub/Before/After/Equal/IsZero/Truncate are engine "
              "intrinsics (years 1678-2262, location and monotonic reading ignored); time.Now is a harness-controlled or fresh non-decreasing symbol")

SPECS["C09"] = {
    "explanation": "One-step inductive harness on the real MetricAggregator (clock field set in-package to a harness clock): an arbitrary aggregate with one "
                   "series per metric type (presence symbolic, idle or with pending data), four independent symbolic expiry intervals (any int64: negative, "
                   "zero, positive), symbolic series timestamps ts <= now < 2^62, then the real flush sequence Flush; Process(observe); Reset. Asserted: every "
                   "held series is reported in this flush (idle counter 0 with rate 0, idle timer count 0 and no percentiles, idle set empty, gauge last "
                   "value); it survives Reset iff expiry == 0 or now - ts <= the expiry of ITS type; survivors are zeroed/emptied (gauges untouched) and keep "
                   "timestamp, source, tags; an expired series leaves no empty name entry. Because the pre-state is arbitrary this covers histories of any "
                   "length. A history harness (real constructor, one datapoint of a symbolic type at T, three flushes at symbolic non-decreasing times) "
                   "cross-checks 'reported exactly until and including the first flush more than the expiry after T'. SIBLINGS: two series of one name (empty tag key and t:1) of a symbolic type with independent timestamps: after Flush + Reset each is kept or removed by its own timestamp.",
    "bounds": {"quick": "all int64 expiries x 4 types, all 0 <= ts <= now < 2^62; histories of 3 and 5 flushes, and of 4 flushes with a second datapoint arriving before a symbolic one of them (the expiry then counts from that datapoint; an expired series is created again)", "thorough": "adds histories of 8 flushes and of 6 flushes with a second datapoint"},
    "outside": ["timestamps at or beyond 2^62 (subtraction overflow)", "concurrent ReceiveMap during a flush (single-owner discipline, structural)"],
    "assumptions": STUBS_COMMON + [MATH_NOTE, TIME_MODEL],
    "jobs": [
        {"pkg": "./pkg/statsd", "harness": "pkg/statsd", "mode": "math",
         "entries": {"quick": ["VerifC09_Step", "VerifC09_Siblings", "VerifC09_Hist", "VerifC09_Hist5", "VerifC09_HistResend", "VerifC09_Twin"],
                     "thorough": ["VerifC09_Step", "VerifC09_Siblings", "VerifC09_Hist", "VerifC09_Hist5", "VerifC09_Hist8", "VerifC09_HistResend", "VerifC09_HistResend6", "VerifC09_Twin"]},
         "reach": {"VerifC09_Step": ["counter-survives", "counter-expired"], "VerifC09_Hist": ["alive-after-3", "expired-in-history"]},
         "twin": {"VerifC09_Twin": True},
         "limits": {"quick": {"timeout": "600s"}, "thorough": {"timeout": "600s"}}},
    ],
}


SPECS["C08"] = {
    "explanation": "STATISTICS (math mode): the real MetricAggregator.Flush is run on a timer with n symbolic real values, one symbolic integer percentile "
                   "p in [-100,100]\\{0}, a symbolic sub-metric mask, symbolic sampled count and flush interval. The expectation is computed in the harness from "
                   "the multiset (sorted by a sorting network: no data-dependent control flow) and k = round(|p|/100*n) (k = n when n = 1, omitted when k = 0): "
                   "min, max, sum, sum of squares, mean, median, population std-dev (stddev >= 0 and stddev^2 = variance), per-second, count = round(sampled), and "
                   "for the percentile the count, mean, sum, sum of squares and boundary of the k lowest (p>0) or k highest (p<0) values, with their names "
                   "(count_<p> ...; strconv.Itoa of the symbolic p is rendered exactly). sort.Float64s is executed from source. All comparisons are exact "
                   "equalities over the reals, so algebraically equivalent refactorings do not alarm while a rank off by one, n-1 for n or a wrong boundary does. "
                   "TWO THRESHOLDS (math mode): the same with a configured list of two percentiles - seven concrete pairs (90/-90, 50/99.9, 12.5/-37.5, -100/100, 0.1/75, -62.5/-25, 1/-1) chosen by a symbolic index and inserted in either order: every sub-metric of each threshold is reported exactly once with the value of ITS k lowest / highest values (order-free oracle), so state leaking from one threshold's iteration into the next, or a skipped threshold after one that covers no value, is a violation. RANK LEMMA (machine mode, IEEE float64): for all integer p in [-100,100] and n in 2..64 the rank the code computes in floating point lies in "
                   "[0,n] and is a nearest integer of |p|n/100. HISTOGRAM (machine mode): timer tagged gsd_histogram:<items> with symbolic item bytes (parsable "
                   "or not, via the ParseFloat stub), symbolic values, limits 0/1/2/max: exactly the first min(limit, #parsable) bounds and +Inf, each with the "
                   "number of values <= bound; none of the summary statistics; nothing when the limit is 0.",
    "bounds": {"quick": "statistics: n = 0..3 values, one symbolic integer percentile, and 1..3 values under a list of two percentiles (seven concrete pairs incl. fractional ones, both insertion orders); rank lemma: n <= 64; histogram: <= 2 items of 1 byte, <= 2 values",
               "thorough": "statistics: n = 0..4 (one and two percentiles); histogram: <= 3 items, items of 2 bytes"},
    "outside": ["float64 rounding of sums (math mode); NaN/Inf timer values in the statistics", "n > 4 (statistics), n > 64 (rank lemma: the solvers do not decide larger n within 10 min)",
                "lists of more than two percentiles; fractional percentiles other than the seven concrete pairs of the Multi entries",
                "observation: at exact halves (p=57, n=50: 0.57*50 = 28.499999999999996 in float64) the code rounds down where exact arithmetic rounds half up; both are nearest integers"],
    "assumptions": STUBS_COMMON + [MATH_NOTE, PF_STUB, TIME_MODEL, "math.Sqrt in math mode: fresh r with r >= 0 and r*r = x"],
    "jobs": [
        {"pkg": "./pkg/statsd", "harness": "pkg/statsd", "mode": "math",
         "entries": {"quick": ["VerifC08_Stats0", "VerifC08_Stats1", "VerifC08_Stats2", "VerifC08_Stats3", "VerifC08_Multi1", "VerifC08_Multi2", "VerifC08_Multi3", "VerifC08_Twin"],
                     "thorough": ["VerifC08_Stats0", "VerifC08_Stats1", "VerifC08_Stats2", "VerifC08_Stats3", "VerifC08_Stats4", "VerifC08_Multi1", "VerifC08_Multi2", "VerifC08_Multi3", "VerifC08_Multi4", "VerifC08_Twin"]},
         "reach": {"VerifC08_Multi2": ["multi"], "VerifC08_Multi3": ["multi"], "VerifC08_Stats0": ["empty"], "VerifC08_Stats2": ["percentile", "percentile-omitted"], "VerifC08_Stats3": ["percentile", "percentile-omitted"]},
         "twin": {"VerifC08_Twin": True},
         "limits": {"quick": {"timeout": "600s"}, "thorough": {"timeout": "5400s"}}},
        {"pkg": "./pkg/statsd", "harness": "pkg/statsd", "mode": "machine", "workers": 4, "solver_ms": 60000,
         "entries": {"quick": ["VerifC08_Rank64"], "thorough": ["VerifC08_Rank64"]},
         "reach": {"VerifC08_Rank64": ["rank"]},
         "limits": {"quick": {"timeout": "900s"}, "thorough": {"timeout": "900s"}}},
        {"pkg": "./pkg/statsd", "harness": "pkg/statsd", "mode": "machine",
         "entries": {"quick": ["VerifC08_Hist_1_1_1", "VerifC08_Hist_2_1_2", "VerifC08_Hist_2_1_2L1", "VerifC08_Hist_L0"],
                     "thorough": ["VerifC08_Hist_1_1_1", "VerifC08_Hist_2_1_2", "VerifC08_Hist_2_1_2L1", "VerifC08_Hist_L0", "VerifC08_Hist_2_2_1", "VerifC08_Hist_3_1_2"]},
         "reach": {"VerifC08_Hist_2_1_2": ["histogram"], "VerifC08_Hist_L0": ["limit-zero"]},
         "limits": {"quick": {"timeout": "600s"}, "thorough": {"timeout": "1800s"}}},
    ],
}


SPECS["C05"] = {
    "explanation": "CONCAT: a datagram line1 \\n line2 [\\n] with every byte of both lines symbolic (any value but newline; trailing newline, ignore-host symbolic) is "
                   "parsed by the real DatagramParser.handleDatagram and compared field by field with parsing each line alone: same metrics (name, type, value, "
                   "string value, rate, tags, source, time), same events, bad-line and event counts equal to the sums. FRAME: in-place name normalisation of one "
                   "line never changes a byte after that line. LAST GAUGE: two gauge lines of one datagram folded into a map with the real MetricMap.Receive "
                   "leave the last line's value, the receive time and the sender as source. IGNORE-HOST: grammar-generated tag lists with a host: tag at a "
                   "symbolic position: source = sender address, or with ignore-host the value of the first host: tag, which is removed exactly once. ALIAS: a "
                   "datagram is folded into a map (metrics go back to the pool: LIFO sync.Pool model = maximal reuse), its buffer is overwritten with arbitrary "
                   "bytes and a second datagram is parsed into the re-used metric; name, tags, source and set members of the first map must be unchanged. RECEIVER: the real "
                   "DatagramReceiver.Receive loop (generic batch reader, buffer pool rotation, DoneFunc) as a goroutine on a harness PacketConn delivering six datagrams with symbolic "
                   "payloads; the harness takes the batches from the unbuffered output channel and holds them, releasing one (symbolic) in the middle: the payloads of all datagrams "
                   "still held stay intact while later ones are read, what the holder writes into a held buffer stays there, each datagram has its own sender address and a receive time, "
                   "each is delivered exactly once. RECYCLE: a datagram is parsed and folded (its metrics return to the pool), then a second one is parsed by the same parser and "
                   "pool (host-tagged / tagged / shaped lines, ignore-host symbolic): what the second yields equals what it yields with a fresh parser and pool - nothing of the first "
                   "(source, tags, name, value) leaks through the recycled pool object.",
    "bounds": {"quick": "two lines, each either 2..3 fully symbolic bytes or the shape k:v|t with symbolic k, v, t (valid, invalid, normalised or deleted name); frame: line of 4..5 bytes; <= 3 tags of 1 byte; alias: tags of 1..2 bytes, all four types",
               "thorough": "lines of 4+3 and 3+4 bytes (namespace ns), frame 6 bytes, tags of 2 bytes"},
    "outside": ["more than two lines per datagram (the splitting loop is the same iteration)", "empty lines (an empty middle line is counted as a bad line by the code; "
                "the property does not say whether an empty line is a rejected line)", "the receiver's buffer pool under real concurrency",
                "aliasing through unsafe string construction (not used by the code; the engine would stop with UNSUPPORTED)"],
    "assumptions": STUBS_COMMON + [PF_STUB, TIME_MODEL, "rate.Limiter.Allow returns false (bad-line logging is not the subject)"],
    "jobs": [
        {"pkg": "./pkg/statsd", "harness": "pkg/statsd", "mode": "machine",
         "entries": {"quick": ["VerifC05_Concat_S_S", "VerifC05_Concat_S_3", "VerifC05_Concat_2_S", "VerifC05_Concat_MT_ET", "VerifC05_Concat_ET_MT", "VerifC05_Concat_ET_ET",
                               "VerifC05_Concat_H_MT", "VerifC05_Concat_H_S", "VerifC05_Concat_MT_H", "VerifC05_Concat_S_ET", "VerifC05_Concat_ET_S", "VerifC05_Concat_3_ET", "VerifC05_Receiver", "VerifC05_Recycle_H_MT", "VerifC05_Recycle_H_S", "VerifC05_Recycle_MT_S", "VerifC05_Frame_4_2", "VerifC05_Frame_5_2", "VerifC05_LastGauge", "VerifC05_IgnoreHost_1_1", "VerifC05_IgnoreHost_2_1",
                               "VerifC05_IgnoreHost_3_1", "VerifC05_Alias1", "VerifC05_Alias2", "VerifC05_ConcatTwin"],
                     "thorough": ["VerifC05_Concat_S_S", "VerifC05_Concat_S_3", "VerifC05_Concat_2_S", "VerifC05_Concat_MT_ET", "VerifC05_Concat_ET_MT", "VerifC05_Concat_ET_ET",
                                  "VerifC05_Concat_H_MT", "VerifC05_Concat_H_S", "VerifC05_Concat_MT_H", "VerifC05_Concat_S_ET", "VerifC05_Concat_ET_S", "VerifC05_Concat_3_ET", "VerifC05_Receiver", "VerifC05_Recycle_H_MT", "VerifC05_Recycle_H_S", "VerifC05_Recycle_MT_S", "VerifC05_Concat_3_3", "VerifC05_Concat_4_3", "VerifC05_Concat_3_4", "VerifC05_Frame_4_2", "VerifC05_Frame_5_2", "VerifC05_Frame_6_2",
                                  "VerifC05_LastGauge", "VerifC05_IgnoreHost_1_1", "VerifC05_IgnoreHost_2_1", "VerifC05_IgnoreHost_3_1", "VerifC05_IgnoreHost_3_2",
                                  "VerifC05_Alias1", "VerifC05_Alias2", "VerifC05_ConcatTwin"]},
         "reach": {"VerifC05_Concat_S_S": ["bad-and-good", "two-metrics"], "VerifC05_Frame_4_2": ["done"], "VerifC05_LastGauge": ["gauge"],
                   "VerifC05_IgnoreHost_2_1": ["keep-host", "ignore-host"], "VerifC05_Alias1": ["checked"]},
         "twin": {"VerifC05_ConcatTwin": True},
         "limits": {"quick": {"timeout": "900s"}, "thorough": {"timeout": "5400s"}}},
    ],
}

SPECS["C04"] = {
    "explanation": "AGGREGATOR: the real NewMetricAggregator / ReceiveMap / Flush / Reset / Flush (so the flush of a persisted idle series is included) on a timer with n "
                   "symbolic values, one symbolic integer percentile in [-100,100] (both signs), symbolic sub-metric switches; histogram-tagged timers with symbolic "
                   "(parsable or malformed) bucket items and limits 0/1/2/max are covered by the C08 histogram entries that run here as well. BACKENDS: each bundled "
                   "backend's payload builder (influxdb processMetrics/flush.add*, otlp SendMetricsAsync incl. data.* constructors and request construction, datadog, newrelic (3 flush types), "
                   "graphite preparePayload, statsdaemon processMetrics, stdout, cloudwatch buildMetricData) is fed the maps the real aggregator produced over a flush / reset / idle-flush history. The only obligations are Go's own: no index/slice/nil/divide/type-assertion "
                   "panic and no explicit panic on any path.",
    "bounds": {"quick": "aggregator: n = 0..4 symbolic values, every integer percentile in [-100,100]; backends: six aggregate shapes (percentile +90 / -90 / -100 and 50, histogram with limit 2, histogram with limit 0, malformed bucket list) x {first flush, idle second flush} x {all sub-metrics, none} x {with, without source}, produced by the real aggregator, symbolic batch sizes (influx 1..3, datadog/newrelic 1..40, otlp 1..3), OTLP AsGauge/AsHistogram, Graphite legacy/basic/tags, New Relic insights/infra/metrics, relay packet size 1..64 and tags on/off", "thorough": "same"},
    "outside": ["JSON / protobuf / gzip encoding of the built payloads, the AWS SDK, HTTP transport", "more than one percentile per run"],
    "assumptions": STUBS_COMMON + [MATH_NOTE, PF_STUB, TIME_MODEL, "fmt.Sprintf/Fprintf and strconv.FormatFloat return opaque non-empty strings"],
    "jobs": [
        {"pkg": "./pkg/statsd", "harness": "pkg/statsd", "mode": "math",
         "entries": {"quick": ["VerifC04_AggPct0", "VerifC04_AggPct1", "VerifC04_AggPct2", "VerifC04_AggPct3", "VerifC04_AggPct4"],
                     "thorough": ["VerifC04_AggPct0", "VerifC04_AggPct1", "VerifC04_AggPct2", "VerifC04_AggPct3", "VerifC04_AggPct4"]},
         "reach": {"*": ["flushed", "flushed-empty"]},
         "limits": {"quick": {"timeout": "600s"}, "thorough": {"timeout": "1800s"}}},
        {"pkg": "./pkg/statsd", "harness": "pkg/statsd", "mode": "machine",
         "entries": {"quick": ["VerifC08_Hist_1_1_1", "VerifC08_Hist_2_1_2", "VerifC08_Hist_2_1_2L1", "VerifC08_Hist_L0"]},
         "limits": {"quick": {"timeout": "600s"}}},
        {"pkg": "./pkg/backends/influxdb", "harness": "pkg/backends/influxdb", "mode": "machine", "workers": 8,
         "entries": {"quick": ["VerifC04_Influx"]}, "reach": {"*": ["flushed", "flushed-idle"]},
         "limits": {"quick": {"timeout": "600s"}}},
        {"pkg": "./pkg/backends/otlp", "harness": "pkg/backends/otlp", "mode": "machine", "workers": 8,
         "entries": {"quick": ["VerifC04_OTLP"]}, "reach": {"*": ["flushed", "flushed-idle"]},
         "limits": {"quick": {"timeout": "600s"}}},
        {"pkg": "./pkg/backends/datadog", "harness": "pkg/backends/datadog", "mode": "machine", "workers": 8,
         "entries": {"quick": ["VerifC04_Datadog"]}, "reach": {"*": ["flushed", "flushed-idle"]},
         "limits": {"quick": {"timeout": "600s"}}},
        {"pkg": "./pkg/backends/newrelic", "harness": "pkg/backends/newrelic", "mode": "machine", "workers": 8,
         "entries": {"quick": ["VerifC04_NewRelic"]}, "reach": {"*": ["flushed", "flushed-idle"]},
         "limits": {"quick": {"timeout": "600s"}}},
        {"pkg": "./pkg/backends/graphite", "harness": "pkg/backends/graphite", "mode": "machine", "workers": 8,
         "entries": {"quick": ["VerifC04_Graphite"]}, "reach": {"*": ["flushed", "flushed-idle"]},
         "limits": {"quick": {"timeout": "600s"}}},
        {"pkg": "./pkg/backends/statsdaemon", "harness": "pkg/backends/statsdaemon", "mode": "machine", "workers": 8,
         "entries": {"quick": ["VerifC04_StatsDaemon"]}, "reach": {"*": ["flushed", "flushed-idle"]},
         "limits": {"quick": {"timeout": "600s"}}},
        {"pkg": "./pkg/backends/stdout", "harness": "pkg/backends/stdout", "mode": "machine", "workers": 8,
         "entries": {"quick": ["VerifC04_Stdout"]}, "reach": {"*": ["flushed", "flushed-idle"]},
         "limits": {"quick": {"timeout": "600s"}}},
        {"pkg": "./pkg/backends/cloudwatch", "harness": "pkg/backends/cloudwatch", "mode": "machine", "workers": 8,
         "entries": {"quick": ["VerifC04_Cloudwatch"]}, "reach": {"*": ["flushed", "flushed-idle"]},
         "limits": {"quick": {"timeout": "600s"}}},
    ],
}


SPECS["C11"] = {
    "explanation": "The real CloudHandler (constructed by NewCloudHandler, channels buffered so that the dispatching side and the owner loop run in one thread) "
                   "is driven over two sources by symbolic commands {metric batch from s, event from s, the owner loop hands the next pending source to the cache, "
                   "the lookup for s completes with an instance or nothing, stats emission}; the cache's Peek result (miss / negative hit / positive hit) is "
                   "symbolic at every call. Ghost state records what is parked and which lookups are outstanding. STEP: one command from an ARBITRARY state "
                   "satisfying the representation invariant (gauges = true numbers; every source with parked data has exactly one lookup pending or "
                   "outstanding; the event wait-group counter = parked events) - covers histories of any length. HIST: 2..4 commands from the real initial "
                   "state. Asserted: a datapoint/event leaves at once iff its source is known or empty, else is parked; when the lookup completes everything "
                   "parked for the source leaves exactly once (counter totals and event counts compared), tagged and re-sourced iff an instance was found; no "
                   "second lookup while one is outstanding; emitted gauges equal the true numbers; the invariant is re-established. LOOP: the real CloudHandler.Run goroutine (select "
                   "over lookup hand-off, answers, incoming metrics and events, unbuffered channels as built by NewCloudHandler) with the real DispatchMetricMap / DispatchEvent entry points, "
                   "a harness cache whose per-source content is symbolic (unknown / known without instance / known with instance) and whose lookup channels the harness serves, 2 (3) items "
                   "(metric batch of one source, metric batch with a series of each source, or event; source and value symbolic; the last one optionally arriving while lookups are outstanding), answers in a symbolic order with symbolic outcomes: "
                   "items of known sources leave at once, nothing of an unknown source leaves before its answer, exactly one lookup request per unknown source with items (none surplus - "
                   "checked by a receive that only a timer ends), the waiting gauges equal the true numbers, after an answer every waiting item of that source has left exactly once, tags "
                   "and source follow the outcome, nothing is left waiting or counted at the end.",
    "bounds": {"quick": "2 sources, <= 2 parked events per source in the arbitrary state; histories of <= 3 commands; loop: 2 items", "thorough": "histories of <= 4 commands; loop: 3 items"},
    "outside": ["real concurrency between dispatchers and the owner goroutine beyond the engine's cooperative interleavings (goroutines switch at blocking operations; every multi-ready select forked)",
                "context cancellation during dispatch"],
    "assumptions": STUBS_COMMON + [MATH_NOTE, "the step harness's invariant is an exact description of the handler state over the ghost variables; a step counterexample replays natively from that state"],
    "jobs": [
        {"pkg": "./pkg/statsd", "harness": "pkg/statsd", "mode": "math",
         "entries": {"quick": ["VerifC11_Step", "VerifC11_Hist2", "VerifC11_Hist3", "VerifC11_Loop2", "VerifC11_Twin"],
                     "thorough": ["VerifC11_Step", "VerifC11_Hist2", "VerifC11_Hist3", "VerifC11_Hist4", "VerifC11_Loop2", "VerifC11_Loop3", "VerifC11_Twin"]},
         "reach": {"VerifC11_Step": ["emit", "event-hit", "event-parked", "events-released", "lookup-sent", "metric-hit", "metric-parked", "metrics-released"],
                   "VerifC11_Loop2": ["answered", "late-item", "loop-done", "mixed-batch"], "VerifC11_Loop3": ["answered", "late-item", "loop-done", "mixed-batch"]},
         "twin": {"VerifC11_Twin": True}, "blocked_is_violation": True,
         "limits": {"quick": {"timeout": "600s"}, "thorough": {"timeout": "1800s"}}},
    ],
}

SPECS["C12"] = {
    "explanation": "One-step inductive harnesses on the real CachedCloudProvider over two sources: arbitrary cache (entry absent / negative / positive, symbolic last "
                   "access and expiry instants, symbolic refresh/idle/TTL options) under the invariant 'positive/negative gauges = numbers of such entries'. "
                   "INFO: handleInstanceInfo with an instance or nil at a symbolic now: the answer is queued for return exactly once and unchanged; a positive "
                   "entry answered with nil keeps serving the old instance; expiry = now + the TTL of its kind; refresh counted once. REFRESH: doRefresh at a "
                   "symbolic t evicts exactly the entries with t - lastAccess > idle and re-queues exactly the remaining ones with t after their expiry. PEEK: "
                   "hit iff cached, serves the cached instance, refreshes last access. HISTORY: k = 3..4 (5) symbolic commands {answer | tick | read} from the EMPTY cache with "
                   "whole hours passing before each (periods = whole hours + 30 min, so the real clock of a native replay follows the same path), the same per-step oracles and the ghost state "
                   "carried along - this reaches state an implementation keeps outside the cache map and the gauges (a scratch list kept between ticks, a memo), which an arbitrary one-step pre-state cannot populate. LOOKUP: doLookup over 1..3 sources with a provider stub returning nil / "
                   "partial / full maps with or without an error: one query, exactly one answer per requested source, in order, carrying the provider's result. "
                   "LOOP: the real Run loop (select over the lookup, answer and refresh-ticker channels), the real lookup dispatcher goroutine (batching by size and by the 10 ms batch "
                   "timer, x/time/rate limiter with an infinite rate, doLookup) and the handlers wired together under the engine's scheduler: a client submits 1..2 (3) sources out of two, "
                   "optionally letting the batch timer fire in between, the provider (batch limit 1..2) answers every call fully / partially / with nothing / with an error (symbolic), "
                   "the answers are read; then the mock clock moves one refresh period and the re-query answers are read. Asserted: one answer per submission, one query per submission, "
                   "1..max-batch sources per call, nobody waiting with a surplus answer, a source is served as resolved exactly when some answer so far resolved it, the gauges equal the "
                   "entry counts, an entry expires one (negative) TTL after its latest answer, idle entries are evicted and entries past their TTL are re-queried exactly once at the tick. "
                   "LOOP-BUSY: two cached sources, TTLs 30 s, idle period 90 s: the first tick re-queries both while the provider is slow (its calls wait at a gate the harness holds), the "
                   "second tick - earlier refresh queries still under way, one of them possibly still waiting to be handed to the dispatcher - must evict both at once; when the gate opens "
                   "every refresh query is answered exactly once.",
    "bounds": {"quick": "2 sources; all option values in [0, 24h]/[0, 240h]; instants between 2020 and 2030; histories of 3 and 4 commands (thorough: 5); loop: 1..2 submissions, 3 provider outcomes, TTLs / idle period from {30 s, 5 min / 10 min}, one refresh tick",
               "thorough": "loop: 1..3 submissions, all 5 provider outcomes"},
    "outside": ["real concurrency between Peek and the owner goroutine", "schedules other than the engine's cooperative ones (goroutines switch at blocking operations; every multi-ready select forked)", "a finite rate limit"],
    "assumptions": STUBS_COMMON + [MATH_NOTE, TIME_MODEL],
    "jobs": [
        {"pkg": "./pkg/cachedinstances/cloudprovider", "harness": "pkg/cachedinstances/cloudprovider", "mode": "math",
         "entries": {"quick": ["VerifC12_Info", "VerifC12_Refresh", "VerifC12_Peek", "VerifC12_Hist3", "VerifC12_Hist4", "VerifC12_Lookup", "VerifC12_Loop", "VerifC12_LoopBusy", "VerifC12_LoopTwin", "VerifC12_Twin"],
                     "thorough": ["VerifC12_Info", "VerifC12_Refresh", "VerifC12_Peek", "VerifC12_Hist3", "VerifC12_Hist4", "VerifC12_Hist5", "VerifC12_Lookup", "VerifC12_Loop", "VerifC12_LoopBusy", "VerifC12_LoopFull", "VerifC12_LoopTwin", "VerifC12_Twin"]},
         "reach": {"VerifC12_Hist4": ["history", "evicted", "requeued", "kept-on-error", "hit"], "VerifC12_Info": ["kept-on-error", "positive-answer"], "VerifC12_Refresh": ["evicted", "requeued"], "VerifC12_Peek": ["hit"], "VerifC12_Lookup": ["lookup"],
                   "VerifC12_Loop": ["refreshed", "evicted", "loop-done"], "VerifC12_LoopBusy": ["evicted-while-busy", "busy-done"], "VerifC12_LoopFull": ["refreshed", "evicted", "loop-done"]},
         "twin": {"VerifC12_Twin": True, "VerifC12_LoopTwin": True}, "blocked_is_violation": True,
         "limits": {"quick": {"timeout": "600s"}, "thorough": {"timeout": "1800s"}}},
    ],
}


SPECS["C10"] = {
    "explanation": "The real TagHandler (NewTagHandler, DispatchMetricMap, uniqueFilterAndAddTags, uniqueTags(WithSeen)) and StringMatch (NewStringMatch parsing of '!', "
                   "trailing '*', 'regex:'; Match; MatchAny; MatchAnyMultiple) are run on a counter with a symbolic 1-byte name and 0..3 symbolic 1-byte tags (every "
                   "byte value, so duplicates and collisions with static tags and patterns are frequent), 0..2 symbolic static tags and 0..3 filters whose pattern "
                   "lists, pattern kinds (exact / prefix / inverted / regex), pattern bytes and drop-metric / drop-host flags are symbolic. The outcome is compared "
                   "with a specification written from FILTERING.md with plain set operations: dropped iff some satisfied filter has drop-metric; otherwise the tags "
                   "are (metric tags minus those matched by drop-tags of satisfied filters) plus the static tags not removed from this metric, duplicate-free; "
                   "source cleared iff a satisfied filter has drop-host; payload unchanged. COLLISION: two series of one name whose tags may coincide after "
                   "removal are combined without loss (counter sums, timer values and sampled counts, set union, newest timestamp).",
    "bounds": {"quick": "1 filter with all four lists of 0..1 patterns (regex allowed in match-metrics/drop-tags), 1..2 tags, 1 static tag; 2 filters with one pattern each; no filter: 3 tags, 2 static tags",
               "thorough": "adds 3 filters with one pattern each, 2 filters x 2 tags (1 filter with lists of 0..2 patterns x 2 tags does not finish - more than 900 000 paths in 10 minutes - and is not registered)"},
    "outside": ["regular-expression semantics: regexp.MustCompile/MatchString are an uninterpreted predicate of (pattern, string), congruent on equal strings", "names and tags longer than one byte (prefix matching is therefore exercised with 1-byte prefixes and the empty prefix only)"],
    "assumptions": STUBS_COMMON + [MATH_NOTE],
    "jobs": [
        {"pkg": "./pkg/statsd", "harness": "pkg/statsd", "mode": "math",
         "entries": {"quick": ["VerifC10_NoFilter_2_1", "VerifC10_NoFilter_3_2", "VerifC10_Filter1_0_0", "VerifC10_Filter1_0_1", "VerifC10_Filter2_0_0", "VerifC10_Filter1_1_1", "VerifC10_Filter1_2_1", "VerifC10_Filter1Re_1_1", "VerifC10_Filter2_1_0",
                               "VerifC10_CollideCounter", "VerifC10_CollideTimer", "VerifC10_CollideSet", "VerifC10_Twin"],
                     "thorough": ["VerifC10_NoFilter_2_1", "VerifC10_NoFilter_3_2", "VerifC10_Filter1_0_0", "VerifC10_Filter1_0_1", "VerifC10_Filter2_0_0", "VerifC10_Filter1_1_1", "VerifC10_Filter1_2_1", "VerifC10_Filter1Re_1_1", "VerifC10_Filter2_1_0",
                                  "VerifC10_Filter2_2_1", "VerifC10_Filter3_1_0",
                                  "VerifC10_CollideCounter", "VerifC10_CollideTimer", "VerifC10_CollideSet", "VerifC10_Twin"]},
         "reach": {"VerifC10_Filter1_1_1": ["dropped", "forwarded", "host-cleared"], "VerifC10_CollideCounter": ["collided", "distinct"], "VerifC10_CollideSet": ["collided"]},
         "twin": {"VerifC10_Twin": True},
         "limits": {"quick": {"timeout": "900s"}, "thorough": {"timeout": "1800s"}}},
    ],
}


SPECS["C01"] = {
    "explanation": "Composition of solver-checked facts about the sequential kernels the property's mechanism names. INGEST: the real MetricMap.Receive on k symbolic "
                   "metrics (type, value, rate in (0,1], name/tag set over a 2x2 universe): counter = sum of trunc(value/rate), timer holds every value once with "
                   "sampled count = sum of 1/rate, set members exactly those received, nothing that was never sent. SPLIT: C06. AGGREGATOR STEP (one-step "
                   "inductive): an ARBITRARY aggregate over the key universe with ghost 'pending' equal to it, then one command: ReceiveMap(arbitrary batch) => "
                   "aggregate = pending + batch; or the real MetricFlusher.flushData (Flush -> Process(send) -> Reset inside one process command, with a recording "
                   "backend) => the map handed to the backend is exactly 'pending' and afterwards every surviving series is empty. PIPELINE (history): the real "
                   "BackendHandler with 1..3 workers (real worker goroutines and queues under the engine's cooperative scheduler, real MetricAggregators), real "
                   "DispatchMetricMap/Split and real flushData, driven by 2..4 symbolic commands {dispatch a datapoint | flush}; where a worker's select has both a "
                   "queued batch and a flush command ready, both orders are explored (schedule variable). Summed over all flushes every counter equals the sum "
                   "sent, nothing unsent is reported, no series twice within one flush.",
    "bounds": {"quick": "ingest: k <= 2 metrics; step: counters over 2 names x 2 tag sets, timers/sets over 1 name x 2 tag sets (<= 2 values/members); pipeline: 1..3 workers, per-shard queue size 0..2, <= 3 commands",
               "thorough": "ingest k = 3; step: timers and sets over 2x2; pipeline 2 workers x 4 commands"},
    "outside": ["real concurrency: data races between parser, worker and flusher goroutines; the engine runs ONE interleaving of goroutines (run-to-block) plus the explicit select choices",
                "shutdown", "float rounding of value/rate (math mode: the harness and the code evaluate the same real expression)"],
    "assumptions": STUBS_COMMON + [MATH_NOTE, TIME_MODEL, "goroutines are scheduled cooperatively and deterministically: a spawned goroutine runs until it blocks; a blocked goroutine resumes when its channel/WaitGroup condition holds"],
    "jobs": [
        {"pkg": "./pkg/statsd", "harness": "pkg/statsd", "mode": "math",
         "entries": {"quick": ["VerifC01_Ingest1", "VerifC01_Ingest2", "VerifC01_StepCounters", "VerifC01_StepTimers", "VerifC01_StepSets",
                               "VerifC01_Pipeline_1_2", "VerifC01_Pipeline_2_3", "VerifC01_Pipeline_3_3", "VerifC01_Full_1_1_2", "VerifC01_Full_2_2_3", "VerifC01_Twin"],
                     "thorough": ["VerifC01_Ingest1", "VerifC01_Ingest2", "VerifC01_Ingest3", "VerifC01_StepCounters", "VerifC01_StepTimers", "VerifC01_StepSets",
                                  "VerifC01_StepTimers2", "VerifC01_StepSets2", "VerifC01_Pipeline_1_2", "VerifC01_Pipeline_2_3", "VerifC01_Pipeline_3_3", "VerifC01_Pipeline_2_4", "VerifC01_Full_1_1_2", "VerifC01_Full_2_2_3", "VerifC01_Twin"]},
         "reach": {"VerifC01_Full_2_2_3": ["datagram", "flush", "full-done"], "VerifC01_Ingest2": ["ingested"], "VerifC01_StepCounters": ["received", "flushed"], "VerifC01_StepTimers": ["received", "flushed"], "VerifC01_Pipeline_2_3": ["dispatched", "flush"]},
         "twin": {"VerifC01_Twin": True},
         "limits": {"quick": {"timeout": "900s"}, "thorough": {"timeout": "5400s"}}},
    ],
}


NET_STUBS = ("library leaves of the forwarder/receiver path are contract stubs in the engine: proto.Marshal records the message and returns a handle (it fails iff a string "
             "reachable from the message is not valid UTF-8, decided by executing the real utf8.ValidString symbolically); proto.Unmarshal copies the recorded message (any "
             "other body is a decoding error); http.Client.Do calls the harness RoundTripper; zlib/lz4 (de)compression is the identity; timers fire at once; natively the "
             "same harness runs against the real libraries, so every counterexample is replayed as an integration test")

SPECS["C14"] = {
    "explanation": "The real forwarder code (postMetrics / DispatchEvent -> dispatchEvent -> post -> constructPost, including the compression switch and header construction) is "
                   "connected through a harness http.RoundTripper to the real ingestion handlers of pkg/web (MetricHandler / EventHandler -> readBody -> proto.Unmarshal -> "
                   "translateFromProtobufV2 / the event mapping), which dispatch into a recorder. METRICS: a symbolic map (one series per type with symbolic presence; names, tag, "
                   "source, set member of symbolic ASCII bytes; any int64 counter, any float64 gauge/timer values and sampled count incl. NaN/Inf/-0, 0..2 timer values, 0..2 "
                   "set members; compression off/zlib/lz4) must be dispatched by the server exactly once, with the same keys, tags, sources, values (timestamps excepted), status "
                   "202, and a Content-Encoding header naming the compression. TWO SERIES: two series of one name (different tag sets and sources) for each of the four types with "
                   "symbolic values and set members: each series keeps its own. RETRIED: the same round trip with up to three attempts that fail or not: a batch delivered on a retry still decodes to what was given. EVENT: all fields symbolic. BAD BODY: unknown encodings and undecodable bodies under every known "
                   "encoding are answered 4xx/5xx and dispatch nothing.",
    "bounds": {"quick": "one name, one tag, one source, strings of 1..2 ASCII bytes, <= 2 timer values / set members; two series per name", "thorough": "adds names, tags and sources of 3 symbolic ASCII bytes"},
    "outside": ["the byte-level protobuf wire format and the zlib/lz4 codecs (trusted inverse pairs; compression levels)", "corrupt COMPRESSED bodies (decoder behaviour)", "strings that are not valid UTF-8 (C15)"],
    "assumptions": STUBS_COMMON + [NET_STUBS, TIME_MODEL],
    "jobs": [
        {"pkg": "./pkg/statsd", "harness": "pkg/statsd", "mode": "machine",
         "entries": {"quick": ["VerifC14_Metrics", "VerifC14_TwoSeries", "VerifC14_Retried", "VerifC14_Event", "VerifC14_BadBody", "VerifC14_Twin"],
                     "thorough": ["VerifC14_Metrics", "VerifC14_Metrics3", "VerifC14_TwoSeries", "VerifC14_Retried", "VerifC14_Event", "VerifC14_BadBody", "VerifC14_Twin"]},
         "reach": {"VerifC14_Metrics": ["decoded"], "VerifC14_Metrics3": ["decoded"], "VerifC14_TwoSeries": ["decoded"], "VerifC14_Retried": ["delivered-on-retry"], "VerifC14_Event": ["event-decoded"], "VerifC14_BadBody": ["rejected"]},
         "twin": {"VerifC14_Twin": True},
         "limits": {"quick": {"timeout": "600s"}, "thorough": {"timeout": "600s"}}},
    ],
}


SPECS["C15"] = {
    "explanation": "RETRY: the real post()/constructPost retry loop (real cenkalti back-off against the symbolic clock, so the retry window is a symbolic decision) runs against a "
                   "symbolic per-attempt fault script {delivered to the real ingestion handler, connection error, 503}: created = 1; no attempt after a success; the upstream "
                   "pipeline receives the batch at most once; sent + dropped = 1 with sent iff an attempt succeeded; every attempt but the first is counted as a retry; with "
                   "retries disabled (-1) exactly one attempt. UTF-8: a merged batch in which one client's tag consists of ARBITRARY bytes still delivers the other "
                   "client's series (proto.Marshal's UTF-8 precondition is modelled, see stubs). SPLIT: SplitByTags on 1..2 series with symbolic tags (with or without "
                   "the dynamic-header prefix) puts each series in exactly one map, keyed by its matching tags, and the request built for that map carries the header "
                   "with the tag's value. PIPELINE: the real HttpForwarderHandlerV2.Run loop (start-up no-op post, merge and request semaphores, MergeMaps, SplitByTags, "
                   "postMetrics, notifyFlush) as a goroutine under the engine's scheduler, the real MetricConsolidator with 1..3 slots and the real manual flush coordinator: k datapoints "
                   "dispatched, Flush + WaitForFlush: every datapoint dispatched before the flush is delivered upstream in exactly one request, an empty flush posts nothing, the "
                   "semaphores are fully returned. PIPELINE-CONC: the same pipeline with two dispatcher goroutines (two datapoints each, a yield before each dispatch), an upstream with "
                   "latency (the request is in flight while every other goroutine runs) and three manual flushes: at each flush notification everything whose dispatch had returned before "
                   "the flush began is delivered, nothing twice; at the end delivered = dispatched, no request in flight, semaphores returned; a blocked harness is a violation. CONSOLIDATOR: the real MetricConsolidator alone "
                   "(1..3 slots), three epochs of 0..2 dispatches separated by flushes into a harness sink; the flushed slices, examined only at the end, hold exactly their epoch's "
                   "datapoints (no aliasing between what was handed over and the maps new datapoints land in). INTERLEAVED: while the first attempt of batch A is at the upstream (answered 503) the forwarder builds and delivers batch B (played by calling postMetrics from inside the transport; compression off/zlib/lz4 symbolic, sync.Pool LIFO): B arrives once with its own datapoints, A is delivered at most once and then with ITS datapoints - a request body must not live in storage reused by a later request.",
    "bounds": {"quick": "pipeline: 0, 1, 3 datapoints over 2 names, 1..3 consolidator slots; <= 5 attempts (unwinding bound: longer scripts are cut by an assumption); invalid-UTF-8 tags of 1..2 arbitrary bytes; 1..2 series with 2..3 tags each (symbolic prefix region:/env:/none, one symbolic byte), two dynamic header names",
               "thorough": "adds <= 7 attempts, 3 arbitrary tag bytes, 2 series x 3 tags, a pipeline of 5 datapoints"},
    "outside": ["concurrent dispatch versus Drain/Fill of the consolidator and the semaphores under REAL scheduling (PIPELINE-CONC explores the cooperative interleavings only: goroutines switch at blocking "
                "operations and at the yields of the harness)", "http.Client behaviour (timeouts, redirects)",
                "MergeMaps conservation is C07"],
    "assumptions": STUBS_COMMON + [NET_STUBS, TIME_MODEL, "strings.ToValidUTF8 on a symbolic string returns the replacement alone (contract: some valid UTF-8 string)"],
    "jobs": [
        {"pkg": "./pkg/statsd", "harness": "pkg/statsd", "mode": "machine",
         "entries": {"quick": ["VerifC15_Retry2", "VerifC15_Retry3", "VerifC15_Retry5", "VerifC15_RetryNone", "VerifC15_Interleaved", "VerifC15_Utf8_1", "VerifC15_Utf8_2",
                               "VerifC15_Split_1_2", "VerifC15_Split_1_3", "VerifC15_Split_2_2", "VerifC15_Header", "VerifC15_Pipeline0", "VerifC15_Pipeline1", "VerifC15_Pipeline3", "VerifC15_PipelineConc", "VerifC15_Consolidator", "VerifC15_Twin"],
                     "thorough": ["VerifC15_Retry2", "VerifC15_Retry3", "VerifC15_Retry5", "VerifC15_RetryNone", "VerifC15_Interleaved", "VerifC15_Utf8_1", "VerifC15_Utf8_2", "VerifC15_Split_1_2", "VerifC15_Split_1_3", "VerifC15_Split_2_2", "VerifC15_Header", "VerifC15_Pipeline0", "VerifC15_Pipeline1", "VerifC15_Pipeline3", "VerifC15_PipelineConc", "VerifC15_Consolidator", "VerifC15_Retry7", "VerifC15_Utf8_3", "VerifC15_Split_2_3", "VerifC15_Pipeline5", "VerifC15_Twin"]},
         "reach": {"VerifC15_Retry3": ["dropped", "sent", "retried"], "VerifC15_Utf8_1": ["posted"], "VerifC15_Split_2_2": ["split"], "VerifC15_Header": ["header"], "VerifC15_Pipeline3": ["pipeline"],
                   "VerifC15_PipelineConc": ["pipeline-conc"], "VerifC15_Consolidator": ["consolidated"], "VerifC15_Interleaved": ["interleaved", "retry-delivered"]},
         "blocked_is_violation": True,
         "twin": {"VerifC15_Twin": True},
         "limits": {"quick": {"timeout": "600s"}, "thorough": {"timeout": "600s"}}},
    ],
}


SPECS["C18"] = {
    "explanation": "The real AlignedTicker (NewAlignedTickerWithContext -> start -> sendTick, its goroutine run under the engine's cooperative scheduler) is driven with a harness clock "
                   "taken from the context: Now returns a symbolic start instant (2000-2100, nanosecond resolution), NewTimer/NewTicker record their durations and hand out channels the "
                   "harness feeds. Offset symbolic in [0, 3*interval). Asserted: (a) the initial wait d satisfies 0 < d <= interval and start + d is on a boundary (boundaries: (t - offset) "
                   "an exact multiple of the interval counted from Go's zero time; oracle written with mod on nanoseconds, not with Truncate); (b) every value the ticker emits is on a "
                   "boundary, not after the tick it was derived from and less than one interval before it; (c) contract E-mock (tick k = previous tick + a positive multiple of the interval, "
                   "clock jumps of 1..5 intervals): emitted values strictly increase and their differences are positive multiples of the interval; (d) contract E-runtime (Go runtime "
                   "re-arming rule, arbitrary lateness up to 3 intervals per tick): no boundary is ever emitted twice, a suppressed tick is only one that would repeat the previous boundary.",
    "bounds": {"quick": "intervals 1 ms, 250 ms, 1 s, 7 s, 10 s, 60 s, 5 min, 1 h, 24 h; 2..3 ticks; runtime contract at 10 s (1..2 ticks) and 1 s (3 ticks)",
               "thorough": "adds 5 ticks at 10 s, 3 late runtime ticks at 7 s and 4 at 10 s (a fully symbolic interval is undecided by the solvers within 5 min: nonlinear mod)"},
    "outside": ["a symbolic interval (nonlinear arithmetic undecided); intervals other than the listed constants", "monotonic clock readings and time zones", "years outside 1678-2262",
                "the slow-consumer drop (cap-1 channel + default) is executed only in the order the cooperative scheduler produces"],
    "assumptions": STUBS_COMMON + [MATH_NOTE, TIME_MODEL, "clock.Timer.Stop / Ticker.Stop are no-ops (harness-made timers have no runtime timer behind them)"],
    "jobs": [
        {"pkg": "./internal/util", "harness": "internal/util", "mode": "math", "workers": 8,
         "entries": {"quick": ["VerifC18_1ms_2", "VerifC18_250ms_2", "VerifC18_1s_2", "VerifC18_7s_2", "VerifC18_10s_3", "VerifC18_60s_3", "VerifC18_5m_2", "VerifC18_1h_2", "VerifC18_24h_2",
                               "VerifC18_RuntimeLate_10s_1", "VerifC18_RuntimeLate_10s_2", "VerifC18_RuntimeLate_1s_3", "VerifC18_Twin"],
                     "thorough": ["VerifC18_1ms_2", "VerifC18_250ms_2", "VerifC18_1s_2", "VerifC18_7s_2", "VerifC18_10s_3", "VerifC18_10s_5", "VerifC18_60s_3", "VerifC18_5m_2", "VerifC18_1h_2", "VerifC18_24h_2",
                                  "VerifC18_RuntimeLate_10s_1", "VerifC18_RuntimeLate_10s_2", "VerifC18_RuntimeLate_1s_3", "VerifC18_RuntimeLate_7s_3", "VerifC18_RuntimeLate_10s_4", "VerifC18_Twin"]},
         "reach": {"VerifC18_10s_3": ["initial", "tick"], "VerifC18_RuntimeLate_10s_2": ["runtime-tick", "runtime-tick-suppressed"]},
         "twin": {"VerifC18_Twin": True},
         "limits": {"quick": {"timeout": "600s"}, "thorough": {"timeout": "600s"}}},
    ],
}


SPECS["C19"] = {
    "explanation": "The real chain DatagramParser.handleDatagram (event branch) -> CloudHandler.DispatchEvent (-> handleIncomingEvent -> handleInstanceInfo -> updateAndDispatchEvents on a cache miss) "
                   "-> TagHandler.DispatchEvent -> BackendHandler.DispatchEvent / internalDispatchEvent (one goroutine per backend, semaphore, wait group; goroutines under the engine's "
                   "cooperative scheduler) -> Backend.SendEvent, then WaitForEvents, with 0..3 recording backends, max-concurrent-events 1..3 symbolic, cache mode miss / negative hit / positive "
                   "hit symbolic, lookup result instance-or-nothing symbolic. The event line is generated from symbolic pieces (title, text with or without an escaped newline, optional d:, k:, "
                   "s:/p:/t:, #tag that may coincide with the static tag). Asserted: nothing reaches a backend before the lookup completed; each backend receives the event exactly once with "
                   "title, text (newline restored), time (receipt time when absent), key, source type, priority, alert type; tags = own + static without duplicates + cloud tags after a "
                   "successful lookup; source = sender address or instance id; both wait-group counters are back to 0 and the semaphore is empty after WaitForEvents; with 0 backends nothing "
                   "blocks. TWO EVENTS: two event lines in one datagram, or one each from two senders (symbolic), parked together on a cache miss with the lookup answers arriving in a "
                   "symbolic order: each backend receives each event exactly once with its own title and its own sender's source. The HTTP ingestion endpoint and forwarder mode are exercised by the C14 event entry (real EventHandler and dispatchEvent).",
    "bounds": {"quick": "0..3 backends, 1..3 concurrent events, one or two events per run, fields of 1..3 bytes", "thorough": "adds two events with three backends"},
    "outside": ["concurrent senders and real goroutine interleavings", "the 20 s per-event timeout context (modelled as a context that is never cancelled)"],
    "assumptions": STUBS_COMMON + [PF_STUB, TIME_MODEL, "context.WithTimeout/WithDeadline return a cancellable context whose deadline never fires"],
    "jobs": [
        {"pkg": "./pkg/statsd", "harness": "pkg/statsd", "mode": "machine", "blocked_is_violation": True,
         "entries": {"quick": ["VerifC19_0", "VerifC19_1", "VerifC19_2", "VerifC19_3", "VerifC19_Two1", "VerifC19_Two2", "VerifC19_Twin"],
                     "thorough": ["VerifC19_0", "VerifC19_1", "VerifC19_2", "VerifC19_3", "VerifC19_Two1", "VerifC19_Two2", "VerifC19_Two3", "VerifC19_Twin"]},
         "reach": {"VerifC19_2": ["after-lookup", "cache-hit", "delivered"], "VerifC19_Two2": ["after-lookup", "two-senders", "delivered-two", "wire-tags"]},
         "twin": {"VerifC19_Twin": True},
         "limits": {"quick": {"timeout": "600s"}, "thorough": {"timeout": "600s"}}},
    ],
}


SPECS["C17"] = {
    "explanation": "RELAY EVENTS: statsdaemon.constructEventMessage(e) is fed to the real lexer: for every event with title/text over the property's alphabet plus space (text optionally "
                   "containing a real newline, never a literal backslash-n pair), symbolic date, optional source / aggregation key / source type, priority, alert type and 0..2 tags, the "
                   "parse succeeds and returns the same fields (source as h:). RELAY LINES: the lines processMetrics emits for a counter, gauge, timer or set with a symbolic name, tag "
                   "and set member parse back to the same name, tags (source as an extra s: tag), counter total, values and member; statsd.-prefixed counters are skipped - and only those (names that merely begin with the letters statsd are relayed). PACKING: for "
                   "0..4 lines of different lengths and a symbolic packet size, no emitted datagram exceeds the packet size unless it holds a single line, every datagram ends with a "
                   "complete line and every line is emitted exactly once. BATCHES: influxdb (1..metrics-per-batch series per callback, counts add up, one line per series, ceil(k/batch) "
                   "callbacks), datadog (every sub-metric of every series exactly once, host and tags carried), newrelic (every series once), otlp groups (no batch above the batch size, "
                   "every metric in exactly one batch). INFLUX ESCAPING: for every ASCII string of 1..3 bytes the escaped tag / measurement name / string field contains no bare separator "
                   "and unescapes (reference un-escaper in the harness) to the input. NEW RELIC RETRIES: with an API key (gzip, the real compress/gzip is interpreted) and up to three "
                   "attempts that fail or not, every attempt of a batch carries the same payload.",
    "bounds": {"quick": "event title/text <= 2 bytes; names 2 bytes, tags 1 byte; packet size 8..40; 0..5 series and batch sizes 1..4 (influx), 1..60 (datadog, newrelic), 1..3 (otlp); escaping strings <= 2 bytes",
               "thorough": "escaping strings of 3 bytes, event title/text of 2 bytes with newline"},
    "outside": ["number formatting (fmt %f, strconv.FormatFloat): the 6-decimal relay round trip of arbitrary values is checked for the concrete values 1.5, 0.25, 3, 42 only",
                "JSON / protobuf / gzip encodings of the built payloads", "Graphite's regexp-based name normalisation", "CloudWatch's 20-per-call loop is covered as index arithmetic in C04",
                "known finding (D10): an event TITLE containing a newline (possible only for events ingested over HTTP) does not survive the relay; checked by VerifC17_EventViaParser through the real DatagramParser and listed in known_findings.txt"],
    "assumptions": STUBS_COMMON + [MATH_NOTE, PF_STUB],
    "jobs": [
        {"pkg": "./pkg/backends/statsdaemon", "harness": "pkg/backends/statsdaemon", "mode": "math",
         "entries": {"quick": ["VerifC17_Event_1_1", "VerifC17_Event_0_0", "VerifC17_Event_1_2NL", "VerifC17_Lines", "VerifC17_RelayPrefix", "VerifC17_Packing", "VerifC17_Twin"],
                     "thorough": ["VerifC17_Event_1_1", "VerifC17_Event_0_0", "VerifC17_Event_1_2NL", "VerifC17_Event_2_2", "VerifC17_Lines", "VerifC17_RelayPrefix", "VerifC17_Packing", "VerifC17_Twin"]},
         "reach": {"VerifC17_Event_1_1": ["event-roundtrip"], "VerifC17_Lines": ["lines-roundtrip"], "VerifC17_RelayPrefix": ["prefix"], "VerifC17_Packing": ["packed"]},
         "twin": {"VerifC17_Twin": True},
         "limits": {"quick": {"timeout": "900s"}, "thorough": {"timeout": "3000s"}}},
        {"pkg": "./pkg/statsd", "harness": "pkg/statsd", "mode": "machine", "workers": 8,
         "entries": {"quick": ["VerifC17_EventViaParser"]}, "reach": {"*": ["via-parser"]}, "limits": {"quick": {"timeout": "600s"}}},
        {"pkg": "./pkg/backends/influxdb", "harness": "pkg/backends/influxdb", "mode": "machine",
         "entries": {"quick": ["VerifC17_Escape1", "VerifC17_Escape2", "VerifC17_InfluxBatches", "VerifC17_InfluxTags"], "thorough": ["VerifC17_Escape1", "VerifC17_Escape2", "VerifC17_Escape3", "VerifC17_InfluxBatches", "VerifC17_InfluxTags"]},
         "reach": {"VerifC17_Escape2": ["escaped"], "VerifC17_InfluxBatches": ["batched"]},
         "limits": {"quick": {"timeout": "600s"}, "thorough": {"timeout": "1800s"}}},
        {"pkg": "./pkg/backends/datadog", "harness": "pkg/backends/datadog", "mode": "machine", "workers": 8,
         "entries": {"quick": ["VerifC17_DatadogBatches", "VerifC17_DatadogHistogram"]}, "reach": {"VerifC17_DatadogBatches": ["batched"], "VerifC17_DatadogHistogram": ["histogram"]}, "limits": {"quick": {"timeout": "600s"}}},
        {"pkg": "./pkg/backends/newrelic", "harness": "pkg/backends/newrelic", "mode": "machine", "workers": 8,
         "entries": {"quick": ["VerifC17_NewRelicBatches"]}, "reach": {"*": ["batched"]}, "limits": {"quick": {"timeout": "600s"}}},
        {"pkg": "./pkg/backends/otlp", "harness": "pkg/backends/otlp", "mode": "machine", "workers": 8,
         "entries": {"quick": ["VerifC17_OTLPGroups"]}, "reach": {"*": ["grouped"]}, "limits": {"quick": {"timeout": "600s"}}},
        {"pkg": "./pkg/backends/newrelic", "harness": "pkg/backends/newrelic", "mode": "machine", "workers": 8,
         "entries": {"quick": ["VerifC17_NewRelicRetryBody"]}, "reach": {"*": ["retried"]}, "limits": {"quick": {"timeout": "600s"}}},
    ],
}


SPECS["C16"] = {
    "explanation": "SOCKET SENDER (graphite, statsdaemon): the real sender.Sender.Run / innerRun / cleanup run as a goroutine (engine's cooperative scheduler) against a scripted environment: "
                   "every ConnFactory call and every conn.Write succeeds or fails by symbolic choice, a failing dial may coincide with daemon shutdown, each of 1..2 flush requests (streams "
                   "with 1..2 pre-filled buffers, as Graphite hands them over) may be cancelled before the sender gets to it, and wherever a select has several ready cases every choice is "
                   "explored (schedule variable); then the sender is shut down. Two time models: (a) VerifC16_n_m: the one-second reconnect timer has always fired; (b) VerifC16_T_*: the "
                   "harness owns time - timers fire only when it advances time - and runs 2..3 rounds, each symbolically one of {nothing, cancel the request the sender is holding, advance "
                   "time, hand over another request}. Asserted: every request handed to the sink gets its completion callback exactly once; a request cancelled while the connection is down "
                   "is answered when it is cancelled, with an error; a request whose buffers were not all written successfully is answered with a non-empty error list; no error is reported "
                   "when the transport never failed and the request was not cancelled. VerifC16_Rollover: 101 requests across a connection recycle (maxStreamsPerConnection) with failing "
                   "dials around it and all flush contexts done. WHOLE SOCKET BACKENDS: statsdaemon.SendMetricsAsync (stream hand-over, processMetrics producing one-line buffers into the "
                   "stream's channel) and graphite.SendMetricsAsync (payload, one-buffer stream) with the real sender goroutine behind them, 1..2 successive flushes each with its own flush "
                   "context (not cancelled / cancelled before / after the hand-over), scripted dials and writes, shutdown at the end: one callback per flush, no error and the complete "
                   "payload on the wire, in order, when nothing failed. OTLP (HTTP): the real SendMetricsAsync / postMetrics retry loop (errgroup, real back-off against the symbolic clock, "
                   "max-retries 0..2) against a symbolic per-attempt fault script {200, connection error, 503} for 1..2 batches: callback exactly once, an error whenever some batch (identified "
                   "by its request body) never had an accepted attempt, none when every attempt succeeded. INFLUXDB, DATADOG, NEW RELIC (HTTP): the real SendMetricsAsync (payload builder, "
                   "one goroutine per batch, request-buffer semaphore, collector goroutine), post / postData retry loops (real exponential back-off against the symbolic clock, New Relic's "
                   "Retry-After handling via a reflection-free errors.As) and constructPost / postWrapper (JSON encoders stubbed: a distinct handle per value) for 1..2 batches with 0..2 free "
                   "request buffers (0 = all held by an earlier flush), a per-attempt fault script {accepted, connection error, 503, the http client's own per-request timeout (a url.Error wrapping "
                   "context.DeadlineExceeded while the flush context is live), for New Relic also 429 with Retry-After}, a symbolic duration of 0..40 s per attempt on a mock clock injected through "
                   "the context (tilinna clock.Mock, a sleep moves the clock), and shutdown just before the flush or while an attempt is in flight (symbolic; New Relic: thorough tier): "
                   "callback exactly once, a non-nil error when some attempted batch was never accepted, none when nothing failed, every attempt of a batch carries the same body, no batch is retried once an attempt that began after the "
                   "retry window (30 s) has failed, SendMetricsAsync does not block (a blocked harness is a violation, replayed natively by time-out), every request buffer is back in the pool "
                   "(unless shut down). CLOUDWATCH: the real SendMetricsAsync (buildMetricData, the 20-per-call loop in its goroutine) against a harness CloudwatchClient whose "
                   "calls fail or not, 0..3 gauges and 0..2 timers (0..21 data, i.e. 0, 1 or 2 calls): callback exactly once (also when a call coincides with shutdown), one error per failed call, 1..20 data per call, every datum once. "
                   "FLUSHER: the real flushData (Process over the BackendHandler's worker goroutines, Flush / Process / Reset, sendMetricsAsync with its wait group) with 1..3 backends "
                   "that answer at once or later, with or without an error, one of which may coincide with shutdown: the flush returns once every backend has answered (blocked = "
                   "violation), every backend is handed each aggregator's map exactly once per flush, a second flush is still carried out. The flusher's WaitGroup accounting over callbacks is exercised by C01's flushData entries.",
    "bounds": {"quick": "1..2 streams x 1..2 buffers, <= 3..5 connect/write operations per run (longer scripts are cut by an assumption), <= 3 rounds; rollover: 101 one-buffer streams, <= 4 dials, writes never fail; OTLP / influxdb / datadog / newrelic: <= 3 attempts in total, 1..2 batches, 0..2 free buffers",
               "thorough": "adds 2 streams x 2 buffers x 3 rounds with harness-owned time"},
    "outside": ["the AWS SDK behind cloudwatch's CloudwatchClient interface (the harness implements the interface; the backend has no retry logic of its own)", "stdout and null backends "
                "(synchronous, no transport)", "compressed payloads of datadog / influxdb (the "
                "harness runs them uncompressed; New Relic's gzip path runs for real in VerifC16_NewRelicKey / VerifC17_NewRelicRetryBody)", "the JSON text itself (stub)", "real scheduling: "
                "one goroutine runs at a time and runs until it blocks; a counterexample that needs a select to prefer a particular ready case may not reproduce natively (the driver then "
                "tries the other candidate paths to the same assertion and reports a CHECK-PROBLEM, exit 2, if none reproduces)"],
    "assumptions": STUBS_COMMON + [NET_STUBS, TIME_MODEL, "time.NewTimer: fired at once (time model a) or pending until verifAdvanceTime (time model b; natively a 1.1 s sleep)"],
    "jobs": [
        {"pkg": "./pkg/backends/sender", "harness": "pkg/backends/sender", "mode": "machine",
         "entries": {"quick": ["VerifC16_1_1", "VerifC16_1_2", "VerifC16_2_1", "VerifC16_2_2", "VerifC16_T_1_1", "VerifC16_T_2_1", "VerifC16_Rollover", "VerifC16_Twin"],
                     "thorough": ["VerifC16_1_1", "VerifC16_1_2", "VerifC16_2_1", "VerifC16_2_2", "VerifC16_T_1_1", "VerifC16_T_2_1", "VerifC16_T_2_2", "VerifC16_Rollover", "VerifC16_Twin"]},
         "reach": {"VerifC16_2_1": ["clean", "faulty", "undelivered"], "VerifC16_T_2_1": ["cancel-held", "undelivered", "clean"], "VerifC16_Rollover": ["rollover-done"]},
         "twin": {"VerifC16_Twin": True},
         "limits": {"quick": {"timeout": "600s"}, "thorough": {"timeout": "600s"}}},
        {"pkg": "./pkg/backends/otlp", "harness": "pkg/backends/otlp", "mode": "machine",
         "entries": {"quick": ["VerifC16_OTLP"]}, "reach": {"*": ["clean", "all-failed", "partial-failure"]},
         "limits": {"quick": {"timeout": "600s"}}},
        {"pkg": "./pkg/backends/statsdaemon", "harness": "pkg/backends/statsdaemon", "mode": "machine",
         "entries": {"quick": ["VerifC16_StatsDaemon1", "VerifC16_StatsDaemon2"]}, "reach": {"*": ["clean", "faulty"]}, "limits": {"quick": {"timeout": "600s"}}},
        {"pkg": "./pkg/backends/graphite", "harness": "pkg/backends/graphite", "mode": "machine",
         "entries": {"quick": ["VerifC16_Graphite1", "VerifC16_Graphite2"]}, "reach": {"*": ["clean", "faulty"]}, "limits": {"quick": {"timeout": "600s"}}},
        {"pkg": "./pkg/backends/cloudwatch", "harness": "pkg/backends/cloudwatch", "mode": "machine",
         "entries": {"quick": ["VerifC16_Cloudwatch"]}, "reach": {"*": ["clean", "failed", "two-calls", "empty", "cancelled"]}, "blocked_is_violation": True, "limits": {"quick": {"timeout": "600s"}}},
        {"pkg": "./pkg/backends/influxdb", "harness": "pkg/backends/influxdb", "mode": "machine",
         "entries": {"quick": ["VerifC16_Influx", "VerifC16_InfluxTwin"], "thorough": ["VerifC16_Influx", "VerifC16_InfluxFull", "VerifC16_InfluxTwin"]},
         "reach": {"VerifC16_Influx": ["clean", "all-failed", "partial-failure", "cancelled"], "VerifC16_InfluxFull": ["clean", "all-failed", "partial-failure", "cancelled"]},
         "twin": {"VerifC16_InfluxTwin": True}, "blocked_is_violation": True, "limits": {"quick": {"timeout": "900s"}, "thorough": {"timeout": "1800s"}}},
        {"pkg": "./pkg/backends/datadog", "harness": "pkg/backends/datadog", "mode": "machine",
         "entries": {"quick": ["VerifC16_Datadog"], "thorough": ["VerifC16_Datadog", "VerifC16_DatadogFull"]}, "reach": {"*": ["clean", "all-failed", "partial-failure", "cancelled"]},
         "blocked_is_violation": True, "limits": {"quick": {"timeout": "900s"}, "thorough": {"timeout": "1800s"}}},
        {"pkg": "./pkg/backends/newrelic", "harness": "pkg/backends/newrelic", "mode": "machine",
         "entries": {"quick": ["VerifC16_NewRelic"], "thorough": ["VerifC16_NewRelic", "VerifC16_NewRelicCancel", "VerifC16_NewRelicTypes", "VerifC16_NewRelicKey"]},
         "reach": {"*": ["clean", "all-failed", "partial-failure"], "VerifC16_NewRelicCancel": ["clean", "all-failed", "partial-failure", "cancelled"]},
         "blocked_is_violation": True, "limits": {"quick": {"timeout": "900s"}, "thorough": {"timeout": "3000s"}}},
        {"pkg": "./pkg/statsd", "harness": "pkg/statsd", "mode": "machine",
         "entries": {"quick": ["VerifC16_Flusher"]}, "reach": {"*": ["flushed-twice-or-shutdown"]}, "blocked_is_violation": True, "limits": {"quick": {"timeout": "600s"}}},
    ],
}


SPECS["C13"] = {
    "explanation": "The informer is replaced by a harness model (a store of pods whose IP index is computed by the REAL podByIpIndexFunc; the store is updated before the handler runs, as the "
                   "informer does). Over histories of symbolic events on two pods and two IPs - add / update (symbolic phase Pending/Running/Succeeded/Failed, host-network flag, IP unset/ip1/ip2 "
                   "with the property's distinct-IP assumption, deletion mark, label value v1/v2), delete (plain or DeletedFinalStateUnknown tombstone), lookup - the real "
                   "cacheInvalidationHandler.OnAdd/OnUpdate/OnDelete, Provider.Peek / instanceFromCache / instanceFromInformer and getTagNameFromRegex are executed and every lookup is "
                   "compared with the specification: identity namespace/name and the tag derived from the CURRENT labels of the running, non-host-network, not-being-deleted pod holding the "
                   "IP (tag name = the regex's 'tag' group, only for matching keys), or nothing. VerifC13_Regexes/RegexesUpd repeat add-lookup(-update-lookup) under three further regex "
                   "configurations chosen symbolically: a named group that captures nothing for one key and something for another (`^team(-(?P<tag>.+))?$`: whole key vs. group), no named "
                   "group (whole key), an annotation regex instead of a label regex, and BOTH regexes disagreeing on keys that occur as a label and as an annotation of the same pod (each key is judged only by the regex of its kind); expected tag SETS are computed by the harness per configuration.",
    "bounds": {"quick": "all histories of 2 events; the scripted histories add-lookup-update-lookup and add-lookup-delete-lookup with every symbolic pod attribute", "thorough": "all histories of 3 events"},
    "outside": ["client-go's informer itself (reflection, goroutines): replaced by the model above", "handler/lookup races", "regular-expression semantics: one concrete label regex is executed natively by the engine",
                "annotations (same code path as labels)", "more than two pods, pods sharing an IP"],
    "assumptions": STUBS_COMMON + ["package initialisers of k8s.io/* are not run (only struct literals and field accesses of k8s API types are used)"],
    "jobs": [
        {"pkg": "./pkg/cachedinstances/k8s", "harness": "pkg/cachedinstances/k8s", "mode": "machine",
         "entries": {"quick": ["VerifC13_2", "VerifC13_AddLookUpdLook", "VerifC13_AddLookDelLook", "VerifC13_Regexes", "VerifC13_Twin"],
                     "thorough": ["VerifC13_2", "VerifC13_3", "VerifC13_AddLookUpdLook", "VerifC13_AddLookDelLook", "VerifC13_Regexes", "VerifC13_RegexesUpd", "VerifC13_RegexesUpdBoth", "VerifC13_Twin"]},
         "reach": {"VerifC13_AddLookUpdLook": ["add", "update", "lookup-none", "lookup-pod"], "VerifC13_AddLookDelLook": ["delete", "lookup-pod"], "VerifC13_Regexes": ["lookup-pod"]},
         "twin": {"VerifC13_Twin": True},
         "limits": {"quick": {"timeout": "900s"}, "thorough": {"timeout": "3000s"}}},
    ],
}

SPECS["C20"] = {
    "explanation": "Wired together for real and run under the engine's cooperative scheduler: extension.manager.Run (POST /register, start of the server goroutine, the 100 ms start-up "
                   "window, then heartbeat: coordinator.Flush once, loop WaitForFlush -> GET /event/next until SHUTDOWN), the telemetry handler (a JSON batch with one runtimeDone record "
                   "among other records -> coordinator.Flush), the real flush coordinator (capacity-1 notification channel), the real forwarder (consolidator with 1..2 slots, Run loop, "
                   "MergeMaps / SplitByTags, postMetrics, notifyFlush, semaphores) and the real ingestion handler of the upstream server. Harness: the Lambda runtime API as the manager's "
                   "http.RoundTripper (/register, long-polling /event/next that parks the heartbeat until the platform has an event, /init/error), the upstream transport with LATENCY - the "
                   "request is in flight while every other goroutine that can run runs (verifYield inside RoundTrip) -, the function (0..2 datapoints with symbolic values per invocation) and "
                   "the platform (telemetry batch of symbolic composition after each invocation); with one invocation, an upstream request and the invocation itself may each (symbolically) "
                   "last several seconds - every pending timer then fires while they are under way. Asserted at the arrival of every GET /event/next: it is preceded by a flush (the initial "
                   "one, then one per finished invocation), no upstream POST is in flight, and every datapoint dispatched before the latest runtime-done signal has been handled by the "
                   "upstream server; between invocations the extension is waiting in GET /event/next; after SHUTDOWN and cancellation Run returns without error and /init/error was not "
                   "called. InitError: a server that fails during start-up makes Run report exactly one /init/error, return an error and never ask for an event.",
    "bounds": {"quick": "1 invocation (quick) with 0..2 datapoints, telemetry batches from three templates, consolidator slots 1..2, upstream always accepting", "thorough": "2 invocations"},
    "outside": ["schedules other than 'run until blocked, latency = yield at the upstream transport, every multi-ready select forked': this is ONE family of interleavings, not all; pre-emption "
                "between two statements of the same goroutine is not explored", "the net/http telemetry server, its gorilla/mux router and the telemetry subscription request (the harness "
                "calls the real handler directly)", "upstream failures and retries during a flush (covered per request by C15)", "dynamic headers (documented as unsupported in Lambda mode; "
                "cmd/lambda-extension sets the viper key 'dynamic-header', the forwarder reads 'http-transport.dynamic-headers' - reading note, viper is not executable by the engine)",
                "JSON texts (stub: decoded by the host's encoding/json for concrete inputs)"],
    "assumptions": STUBS_COMMON + [NET_STUBS, TIME_MODEL, "time.After / NewTimer pending until the harness advances time (verifTimersManual)", "jsoniter / encoding/json Decode-Unmarshal stubs for concrete texts; Encode/Marshal return a handle",
                                   "runtime/debug.Stack returns a constant"],
    "jobs": [
        {"pkg": "./pkg/statsd", "harness": "pkg/statsd", "mode": "machine", "workers": 16,
         "entries": {"quick": ["VerifC20_InitError", "VerifC20_1", "VerifC20_Twin"], "thorough": ["VerifC20_InitError", "VerifC20_1", "VerifC20_2", "VerifC20_Twin"]},
         "reach": {"VerifC20_1": ["next", "done"], "VerifC20_2": ["next", "done"], "VerifC20_InitError": ["init-error"]},
         "twin": {"VerifC20_Twin": True}, "blocked_is_violation": True,
         "limits": {"quick": {"timeout": "900s"}, "thorough": {"timeout": "1800s"}}},
    ],
}
