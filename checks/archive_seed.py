#!/usr/bin/env python3
"""archive_seed.py <prop> <n> <demo pkg dir> <checks,comma> <detecting entry> <first_run: yes|no>"""
import sys, os, shutil, json
prop, n, demo_dir, checks, entry, first = sys.argv[1:7]
d = "/verif/seeded/%s-agent%s" % (prop, n)
os.makedirs(d, exist_ok=True)
shutil.copy("/tmp/seed-%s/patch%s.diff" % (prop, n), d + "/patch.diff")
shutil.copy("/tmp/seed-%s/demo%s_test.go" % (prop, n), d + "/demo_test.go")
notes = open("/tmp/seed-%s/notes%s.md" % (prop, n)).read()
open(d + "/notes.md", "w").write(notes)
json.dump({"property": prop, "origin": "sub-agent given only the property text and a scratch worktree", "demo_package_dir": demo_dir,
           "confirmed_by": "checks/mutate verify: patch applies, go build ./... ok, existing tests of the affected packages pass with it, demo fails with it and passes without it",
           "detected_by_checks": checks.split(","), "detecting_entry": entry, "detected_on_first_run": first == "yes",
           "needs_to_manifest": notes.strip().split("\n")[0][:300]}, open(d + "/meta.json", "w"), indent=1)
print("archived", d)
