// symx: bounded symbolic execution of Go SSA with an SMT solver as the deciding step.
//
//	symx run -repo /repo -pkg ./internal/lexer -harness /verif/harness/internal/lexer \
//	     -entry VerifC03_All -mode machine -workers 16 -out result.json
package main

import (
	"encoding/json"
	"flag"
	"fmt"
	"os"
	"path/filepath"
	"sort"
	"strings"
	"time"

	"symx/interp"
)

type violOut struct {
	Kind      string   `json:"kind"`
	Site      string   `json:"site"`
	Msg       string   `json:"msg"`
	Unsure    bool     `json:"unsure"`
	Values    []string `json:"values"`
	Kinds     []string `json:"kinds"`
	Names     []string `json:"names"`
	Count     int      `json:"count"`
	Decisions int      `json:"decisions"`
}

type out struct {
	Entry       string              `json:"entry"`
	Mode        string              `json:"mode"`
	Paths       int                 `json:"paths"`
	Ends        map[string]int      `json:"ends"`
	EndSamples  map[string][]string `json:"end_samples"`
	Complete    bool                `json:"complete"`
	Remaining   int                 `json:"remaining"`
	Violations  []violOut           `json:"violations"`
	Witnesses   []violOut           `json:"witnesses"`
	Reached     map[string]int      `json:"reached"`
	Funcs       []string            `json:"funcs"`
	Queries     int64               `json:"queries"`
	Sat         int64               `json:"sat"`
	Unsat       int64               `json:"unsat"`
	Unknown     int64               `json:"unknown"`
	Escalated   int64               `json:"escalated"`
	EscDecided  int64               `json:"escalated_decided"`
	SolverErrs  int64               `json:"solver_errors"`
	SolverS     float64             `json:"solver_s"`
	Obligations int64               `json:"obligations"`
	Discharged  int64               `json:"discharged"`
	Trivial     int64               `json:"trivial"`
	Asserts     int64               `json:"asserts_executed"`
	Forks       int64               `json:"forks"`
	Inconcl     int64               `json:"inconclusive"`
	Samples     []string            `json:"samples"`
	WallS       float64             `json:"wall_s"`
	LoadS       float64             `json:"load_s"`
	EngineErrs  []string            `json:"engine_errors"`
	OpaquePaths int                 `json:"opaque_paths"`
	Terms       int                 `json:"terms"`
}

func main() {
	if len(os.Args) < 2 {
		fmt.Fprintln(os.Stderr, "usage: symx run [flags]")
		os.Exit(2)
	}
	switch os.Args[1] {
	case "run":
		run(os.Args[2:])
	default:
		fmt.Fprintln(os.Stderr, "unknown command", os.Args[1])
		os.Exit(2)
	}
}

func run(args []string) {
	fs := flag.NewFlagSet("run", flag.ExitOnError)
	repo := fs.String("repo", "/repo", "module root of the code under test")
	pkg := fs.String("pkg", "", "package directory relative to repo, e.g. ./internal/lexer")
	harness := fs.String("harness", "", "directory with harness files (overlaid into the package)")
	rt := fs.String("rt", "", "runtime declarations template (zz_verif_rt.go.tmpl)")
	entries := fs.String("entry", "", "comma-separated harness entry functions")
	mode := fs.String("mode", "machine", "machine|math")
	workers := fs.Int("workers", 8, "parallel workers")
	maxPaths := fs.Int("max-paths", 0, "path budget (0 = unlimited)")
	timeout := fs.Duration("timeout", 0, "wall budget per entry")
	solverMs := fs.Int("solver-ms", 10000, "per-query timeout of the primary solver")
	outFile := fs.String("out", "", "write JSON result here")
	workDir := fs.String("work", "/verif/.work/tmp", "scratch directory")
	maxDec := fs.Int("max-decisions", 0, "decision bound per path (unwinding)")
	maxSteps := fs.Int64("max-steps", 0, "instruction budget per path")
	trace := fs.Bool("trace", false, "trace")
	fs.Parse(args)

	t0 := time.Now()
	overlay := map[string][]byte{}
	pkgDir := filepath.Join(*repo, *pkg)
	if *harness != "" {
		files, _ := filepath.Glob(filepath.Join(*harness, "*.go"))
		for _, f := range files {
			if strings.HasSuffix(f, "_native.go") || strings.HasSuffix(f, "_test.go") {
				continue
			}
			data, err := os.ReadFile(f)
			if err != nil {
				fatal(err)
			}
			overlay[filepath.Join(pkgDir, filepath.Base(f))] = data
		}
	}
	harnessPkgName := packageNameOf(overlay)
	// extra overlay files for other packages: <harness>/extra/*.go with a first line
	// "//verif:dir <dir relative to repo>"
	if *harness != "" {
		files, _ := filepath.Glob(filepath.Join(*harness, "extra", "*.go"))
		for _, f := range files {
			data, err := os.ReadFile(f)
			if err != nil {
				fatal(err)
			}
			first := strings.SplitN(string(data), "\n", 2)[0]
			if !strings.HasPrefix(first, "//verif:dir ") {
				fatal(fmt.Errorf("%s: missing //verif:dir line", f))
			}
			dir := strings.TrimSpace(strings.TrimPrefix(first, "//verif:dir "))
			overlay[filepath.Join(*repo, dir, filepath.Base(f))] = data
		}
	}
	if *rt != "" {
		data, err := os.ReadFile(*rt)
		if err != nil {
			fatal(err)
		}
		pkgName := harnessPkgName
		if pkgName == "" {
			fatal(fmt.Errorf("cannot determine package name from harness files"))
		}
		overlay[filepath.Join(pkgDir, "zz_verif_rt.go")] = []byte(strings.Replace(string(data), "package PKG", "package "+pkgName, 1))
	}
	prog, pkgs, err := interp.Load(interp.LoadConfig{Dir: *repo, Patterns: []string{*pkg}, Overlay: overlay})
	if err != nil {
		fatal(err)
	}
	loadS := time.Since(t0).Seconds()
	if len(pkgs) == 0 || pkgs[0] == nil {
		fatal(fmt.Errorf("no package loaded"))
	}
	m := interp.Machine
	if *mode == "math" {
		m = interp.Math
	}
	var outs []out
	for _, e := range strings.Split(*entries, ",") {
		e = strings.TrimSpace(e)
		if e == "" {
			continue
		}
		res := prog.Run(interp.RunConfig{
			Pkg: pkgs[0], Entry: e, Mode: m, Workers: *workers, MaxPaths: *maxPaths,
			Timeout: *timeout, SolverMs: *solverMs, WorkDir: *workDir, MaxDec: *maxDec, MaxSteps: *maxSteps, Trace: *trace,
		})
		o := out{
			Entry: e, Mode: *mode, Paths: res.Paths, Ends: res.Ends, EndSamples: res.EndSamples, Complete: res.Complete(),
			Remaining: res.Remaining, Reached: res.Reached,
			Queries: res.Stats.Queries, Sat: res.Stats.Sat, Unsat: res.Stats.Unsat, Unknown: res.Stats.Unknown,
			Escalated: res.Stats.Escalated, EscDecided: res.Stats.EscDecided, SolverErrs: res.Stats.Errors,
			SolverS:     float64(res.Stats.SolverNanos) / 1e9,
			Obligations: res.Obligations, Discharged: res.Discharged, Trivial: res.Trivial, Forks: res.Forks,
			Inconcl: res.Inconcl, Samples: res.Samples, WallS: res.Wall.Seconds(), LoadS: loadS, EngineErrs: res.EngineErrs,
			OpaquePaths: res.OpaquePaths, Asserts: res.Asserts, Terms: res.Terms,
		}
		for f := range res.Funcs {
			o.Funcs = append(o.Funcs, f)
		}
		sort.Strings(o.Funcs)
		for _, v := range res.Violations {
			vo := violOut{Kind: v.Kind, Site: v.Site, Msg: v.Msg, Unsure: v.Unsure, Values: v.Values, Decisions: len(v.Decisions)}
			vo.Count = res.ViolCount[v.Kind+"|"+v.Site+"|"+v.Msg]
			for _, n := range v.Nondets {
				vo.Kinds = append(vo.Kinds, n.Kind)
				vo.Names = append(vo.Names, n.Name)
			}
			o.Violations = append(o.Violations, vo)
		}
		for _, v := range res.Witnesses {
			vo := violOut{Kind: v.Kind, Site: v.Site, Msg: v.Msg, Values: v.Values}
			for _, n := range v.Nondets {
				vo.Kinds = append(vo.Kinds, n.Kind)
				vo.Names = append(vo.Names, n.Name)
			}
			o.Witnesses = append(o.Witnesses, vo)
		}
		outs = append(outs, o)
		fmt.Fprintf(os.Stderr, "[symx] %s: paths=%d ends=%v violations=%d complete=%v queries=%d (unknown %d) wall=%.1fs\n",
			e, res.Paths, res.Ends, len(res.Violations), o.Complete, o.Queries, o.Unknown, o.WallS)
		for k, ss := range res.EndSamples {
			if k == "ASSUME" || k == "INFEASIBLE" {
				continue
			}
			for _, s := range ss {
				if len(s) > 600 {
					s = s[:600]
				}
				fmt.Fprintf(os.Stderr, "[symx]   %s: %s\n", k, s)
			}
		}
		for _, v := range o.Violations {
			fmt.Fprintf(os.Stderr, "[symx]   VIOL %s %s: %s values=%v\n", v.Kind, v.Site, v.Msg, v.Values)
		}
	}
	data, _ := json.MarshalIndent(outs, "", " ")
	if *outFile != "" {
		if err := os.WriteFile(*outFile, data, 0o644); err != nil {
			fatal(err)
		}
	} else {
		os.Stdout.Write(data)
		fmt.Println()
	}
}

func packageNameOf(overlay map[string][]byte) string {
	for _, data := range overlay {
		for _, ln := range strings.Split(string(data), "\n") {
			ln = strings.TrimSpace(ln)
			if strings.HasPrefix(ln, "package ") {
				return strings.TrimSpace(strings.TrimPrefix(ln, "package "))
			}
		}
	}
	return ""
}

func fatal(err error) {
	fmt.Fprintln(os.Stderr, "symx:", err)
	os.Exit(2)
}
