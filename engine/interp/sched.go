package interp

import (
	"fmt"
)

// Cooperative, deterministic goroutine scheduler (DESIGN §2.6).
//
// Every interpreted goroutine runs on its own host goroutine, but only one of them runs at a
// time (baton passing). `go f()` runs the child at once until it blocks or finishes, then the
// lowest-numbered runnable goroutine continues (the spawner, normally). An operation that
// cannot proceed parks its goroutine until another goroutine makes it possible. If nothing can
// run while the harness goroutine is parked the path ends as BLOCKED. This gives server loops
// (`for { select {...} }`) and wait groups their meaning in ONE fixed interleaving; it does
// not explore schedules.

type gor struct {
	id    int
	wake  chan struct{}
	state int // 0 runnable, 1 parked, 2 done
	ready func() bool
	what  string
	// set while the goroutine is inside verifYield / verifSettle
	yielding bool
	settling bool
	yieldSeq int
}

type pathAbort struct{}

type sched struct {
	gs       []*gor
	cur      *gor
	abort    bool
	deadlock bool
	// outcome of a child goroutine that ends the whole path
	childEnd interface{}
	doneSig  chan struct{}
	yieldSeq int
}

func (i *interpreter) initSched() {
	main := &gor{id: 0, wake: make(chan struct{}, 1)}
	i.sch = &sched{gs: []*gor{main}, cur: main, doneSig: make(chan struct{}, 1)}
}

// pick returns the next goroutine that can run (lowest id first), or nil.
func (s *sched) pick(except *gor) *gor {
	for _, g := range s.gs {
		if g == except || g.state == 2 {
			continue
		}
		if g.state == 0 {
			return g
		}
		if g.state == 1 && g.ready != nil && g.ready() {
			return g
		}
	}
	return nil
}

// switchTo hands the baton to g and waits until this goroutine is woken again.
func (i *interpreter) switchTo(self, g *gor) {
	s := i.sch
	depth := i.depth
	s.cur = g
	g.state = 0
	g.wake <- struct{}{}
	<-self.wake
	s.cur = self
	i.depth = depth
	if s.abort && self.id != 0 {
		panic(pathAbort{})
	}
}

// block parks the current goroutine until ready() holds.
func (fr *frame) park(ready func() bool, what string) {
	i := fr.i
	s := i.sch
	for !ready() {
		self := s.cur
		self.state = 1
		self.ready = ready
		self.what = what
		next := s.pick(self)
		if next == nil {
			// nothing else can run
			if ready() {
				// (a yield with nobody to yield to)
				self.state = 0
				return
			}
			if self.id == 0 {
				self.state = 0
				i.ctx.end("BLOCKED", "%s", what)
			}
			// a child is stuck and so is everybody else: the harness goroutine is parked;
			// wake it with the deadlock flag
			s.deadlock = true
			i.switchTo(self, s.gs[0])
			continue
		}
		i.switchTo(self, next)
		if self.id == 0 {
			i.checkChild()
			if s.deadlock {
				s.deadlock = false
				if !ready() {
					self.state = 0
					i.ctx.end("BLOCKED", "%s (deadlock: every goroutine is parked)", what)
				}
			}
		}
		self.state = 0
	}
}

// checkChild re-raises in the harness goroutine what ended a child abnormally.
func (i *interpreter) checkChild() {
	if ce := i.sch.childEnd; ce != nil {
		i.sch.childEnd = nil
		panic(ce)
	}
}

func (fr *frame) spawnGo(fn value, args []value) {
	i := fr.i
	s := i.sch
	self := s.cur
	g := &gor{id: len(s.gs), wake: make(chan struct{}, 1)}
	s.gs = append(s.gs, g)
	depth := i.depth
	go func() {
		<-g.wake
		defer func() {
			r := recover()
			g.state = 2
			if r != nil {
				if _, ok := r.(pathAbort); !ok {
					// pathEnd / targetPanic / engineError in a child ends the whole path
					if s.childEnd == nil {
						s.childEnd = r
					}
				}
			}
			if s.abort {
				s.doneSig <- struct{}{}
				return
			}
			// hand the baton on
			var next *gor
			if s.childEnd != nil {
				next = s.gs[0]
			} else {
				next = s.pick(g)
				if next == nil {
					s.deadlock = true
					next = s.gs[0]
				}
			}
			s.cur = next
			next.state = 0
			next.wake <- struct{}{}
		}()
		if s.abort {
			panic(pathAbort{})
		}
		i.depth = 0
		call(i, nil, 0, fn, args)
	}()
	// run the child now, until it blocks or finishes
	self.state = 0
	i.switchTo(self, g)
	i.depth = depth
	if self.id == 0 {
		i.checkChild()
		if s.deadlock {
			// the child (and everything else) is parked, the spawner simply continues
			s.deadlock = false
		}
	}
}

// killGoroutines terminates every parked child at the end of a path.
func (i *interpreter) killGoroutines() {
	s := i.sch
	if s == nil {
		return
	}
	s.abort = true
	for _, g := range s.gs[1:] {
		if g.state == 2 {
			continue
		}
		g.wake <- struct{}{}
		<-s.doneSig
	}
	i.sch = nil
}

var _ = fmt.Sprint
