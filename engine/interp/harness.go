package interp

import (
	"fmt"
	"go/types"
	"math/big"
	"strings"

	"symx/sym"
)

// Harness primitives. They are declared without bodies in the overlay file
// zz_verif_rt.go of the package under test and intercepted here by name.

const assertMarker = "VERIF-ASSERT: "

func harnessFn(name string) externalFn {
	switch name {
	case "nondetBool":
		return func(fr *frame, a []value) value { return fr.i.ctx.Fresh("bool", types.Bool) }
	case "nondetByte", "nondetUint8":
		return func(fr *frame, a []value) value { return fr.i.ctx.Fresh("u8", types.Uint8) }
	case "nondetInt":
		return func(fr *frame, a []value) value { return fr.i.ctx.Fresh("int", types.Int) }
	case "nondetInt8":
		return func(fr *frame, a []value) value { return fr.i.ctx.Fresh("i8", types.Int8) }
	case "nondetInt16":
		return func(fr *frame, a []value) value { return fr.i.ctx.Fresh("i16", types.Int16) }
	case "nondetInt32":
		return func(fr *frame, a []value) value { return fr.i.ctx.Fresh("i32", types.Int32) }
	case "nondetInt64":
		return func(fr *frame, a []value) value { return fr.i.ctx.Fresh("i64", types.Int64) }
	case "nondetUint16":
		return func(fr *frame, a []value) value { return fr.i.ctx.Fresh("u16", types.Uint16) }
	case "nondetUint32":
		return func(fr *frame, a []value) value { return fr.i.ctx.Fresh("u32", types.Uint32) }
	case "nondetUint64":
		return func(fr *frame, a []value) value { return fr.i.ctx.Fresh("u64", types.Uint64) }
	case "nondetUint":
		return func(fr *frame, a []value) value { return fr.i.ctx.Fresh("uint", types.Uint) }
	case "nondetFloat64":
		return func(fr *frame, a []value) value { return fr.i.ctx.Fresh("f64", types.Float64) }
	case "nondetBytes":
		return func(fr *frame, a []value) value {
			n := int(fr.intArg(a[0]))
			out := make([]value, n)
			for i := range out {
				out[i] = fr.i.ctx.Fresh("u8", types.Uint8)
			}
			return out
		}
	case "nondetString":
		return func(fr *frame, a []value) value {
			n := int(fr.intArg(a[0]))
			out := make([]value, n)
			for i := range out {
				out[i] = fr.i.ctx.Fresh("u8", types.Uint8)
			}
			return mkString(out)
		}
	case "nondetIntIn":
		return func(fr *frame, a []value) value {
			return fr.i.ctx.freshIn("int", types.Int, asInt64(a[0]), asInt64(a[1]))
		}
	case "nondetInt64In":
		return func(fr *frame, a []value) value {
			return fr.i.ctx.freshIn("i64", types.Int64, asInt64(a[0]), asInt64(a[1]))
		}
	case "verifAssume":
		return func(fr *frame, a []value) value {
			c := fr.i.ctx
			c.Assume(c.termOf(a[0]))
			return nil
		}
	case "verifAssert":
		return func(fr *frame, a []value) value {
			c := fr.i.ctx
			msg, _ := a[1].(string)
			c.Asserts++
			if !c.Require(c.termOf(a[0]), "assert: "+msg) {
				panic(targetPanic{v: iface{t: fr.i.runtimeErrorString, v: assertMarker + msg}, site: fr.caller.site()})
			}
			return nil
		}
	case "verifReach":
		return func(fr *frame, a []value) value {
			fr.i.ctx.Reach(a[0].(string))
			return nil
		}
	case "verifSetNow": // installs the harness clock: time.Now() returns this unix-nanosecond cell's value
		return func(fr *frame, a []value) value {
			fr.i.nowHook = a[0].(*value)
			return nil
		}
	case "verifYield", "verifSettle": // lets every other runnable goroutine run until it blocks
		return func(fr *frame, a []value) value {
			// the yielding goroutine becomes runnable again only when no goroutine that is not
			// itself yielding can run (it may have the lowest id, so the scheduler would otherwise
			// prefer it at once); several yielders resume in the order in which they yielded
			started := false
			s := fr.i.sch
			self := s.cur
			s.yieldSeq++
			self.yielding, self.yieldSeq = true, s.yieldSeq
			// verifSettle waits for quiescence: it also lets goroutines that merely yielded
			// (modelled latency) finish first
			self.settling = name == "verifSettle"
			defer func() { self.yielding, self.settling = false, false }()
			fr.park(func() bool {
				if !started {
					started = true
					return false
				}
				for _, g := range s.gs {
					if g == self || g.state == 2 {
						continue
					}
					if g.yielding {
						switch {
						case self.settling && !g.settling:
							return false
						case !self.settling && g.settling:
						case g.yieldSeq < self.yieldSeq:
							return false
						}
						continue
					}
					if g.state == 0 || (g.state == 1 && g.ready != nil && g.ready()) {
						return false
					}
				}
				return true
			}, "yield")
			return nil
		}
	case "verifTimersManual": // time.NewTimer/After no longer fire by themselves (see extNewTimer)
		return func(fr *frame, a []value) value { fr.i.manualTimers = true; return nil }
	case "verifAdvanceTime": // fires every pending timer
		return func(fr *frame, a []value) value {
			for _, ch := range fr.i.pendingTimers {
				if len(ch.buf) == 0 {
					ch.buf = append(ch.buf, extTimeNow(fr, nil))
				}
			}
			fr.i.pendingTimers = nil
			for _, ch := range fr.i.pendingTickers {
				if len(ch.buf) == 0 {
					ch.buf = append(ch.buf, extTimeNow(fr, nil))
				}
			}
			return nil
		}
	case "verifWaitGroupCount":
		return func(fr *frame, a []value) value { return int((*wgCounter(a[0])).(uint64)) }
	case "verifIsSymbolic": // for engine self tests
		return func(fr *frame, a []value) value { return isSym(a[0]) }
	case "verifNative":
		return func(fr *frame, a []value) value { return false }
	case "verifMathMode":
		return func(fr *frame, a []value) value { return fr.i.ctx.Mode == Math }
	case "verifNote": // attaches a rendered value to the violation report, no-op otherwise
		return func(fr *frame, a []value) value { return nil }
	}
	return nil
}

func (c *Ctx) freshIn(label string, k types.BasicKind, lo, hi int64) value {
	if c.Mode == Math {
		return c.freshRange(label, k, big.NewInt(lo), big.NewInt(hi))
	}
	s := c.Fresh(label, k)
	w := kindWidth(k)
	c.Assume(c.B.And(c.B.BVCmp("bvsle", c.B.BVC(uint64(lo), w), s.T), c.B.BVCmp("bvsle", s.T, c.B.BVC(uint64(hi), w))))
	return s
}

// errorValue builds a non-nil error whose Error() is msg.
func (fr *frame) errorValue(msg string) value {
	return iface{t: fr.i.errorStringPtr(), v: fr.i.newErrorString(msg)}
}

func (i *interpreter) errorStringPtr() types.Type {
	pkg := i.prog.ImportedPackage("errors")
	if pkg == nil {
		panic("errors package not loaded")
	}
	return types.NewPointer(pkg.Type("errorString").Type())
}

func (i *interpreter) newErrorString(msg string) value {
	var cell value = structure{msg}
	return &cell
}

var _ = strings.HasPrefix
var _ = fmt.Sprint
var _ = sym.Bool
