// Derived from golang.org/x/tools/go/ssa/interp (BSD-style licence, see LICENSE.x-tools).

package interp

import (
	"fmt"
	"go/token"
	"go/types"
	"strings"
	"unicode/utf8"

	"golang.org/x/tools/go/ssa"

	"symx/sym"
)

type targetPanic struct {
	v    value
	site string
}

func (p targetPanic) String() string {
	return toString(p.v)
}

type exitPanic int

func mustDeref(t types.Type) types.Type {
	if p, ok := t.Underlying().(*types.Pointer); ok {
		return p.Elem()
	}
	panic(fmt.Sprintf("mustDeref: %v is not a pointer", t))
}

func zero(t types.Type) value {
	switch t := t.(type) {
	case *types.Basic:
		if t.Kind() == types.UntypedNil {
			panic("untyped nil has no zero value")
		}
		if t.Info()&types.IsUntyped != 0 {
			t = types.Default(t).(*types.Basic)
		}
		switch t.Kind() {
		case types.Bool:
			return false
		case types.Int:
			return int(0)
		case types.Int8:
			return int8(0)
		case types.Int16:
			return int16(0)
		case types.Int32:
			return int32(0)
		case types.Int64:
			return int64(0)
		case types.Uint:
			return uint(0)
		case types.Uint8:
			return uint8(0)
		case types.Uint16:
			return uint16(0)
		case types.Uint32:
			return uint32(0)
		case types.Uint64:
			return uint64(0)
		case types.Uintptr:
			return uintptr(0)
		case types.Float32:
			return float32(0)
		case types.Float64:
			return float64(0)
		case types.Complex64:
			return complex64(0)
		case types.Complex128:
			return complex128(0)
		case types.String:
			return ""
		case types.UnsafePointer:
			return unsafePtr{}
		default:
			panic(fmt.Sprint("zero for unexpected type:", t))
		}
	case *types.Pointer:
		return (*value)(nil)
	case *types.Array:
		a := make(array, t.Len())
		for i := range a {
			a[i] = zero(t.Elem())
		}
		return a
	case *types.Named:
		return zero(t.Underlying())
	case *types.Alias:
		return zero(types.Unalias(t))
	case *types.Interface:
		return iface{} // nil type, methodset and value
	case *types.Slice:
		return []value(nil)
	case *types.Struct:
		s := make(structure, t.NumFields())
		for i := range s {
			s[i] = zero(t.Field(i).Type())
		}
		return s
	case *types.Tuple:
		if t.Len() == 1 {
			return zero(t.At(0).Type())
		}
		s := make(tuple, t.Len())
		for i := range s {
			s[i] = zero(t.At(i).Type())
		}
		return s
	case *types.Chan:
		return (*channel)(nil)
	case *types.Map:
		return (*smap)(nil)
	case *types.Signature:
		return (*ssa.Function)(nil)
	case *types.TypeParam:
		panic("zero of type parameter (generic body executed without instantiation)")
	}
	panic(fmt.Sprint("zero: unexpected ", t))
}

// intArg returns a concrete int64 for an index/length operand, concretising a symbolic one by
// case split (DESIGN §2.2).
func (fr *frame) intArg(x value) int64 {
	if s, ok := x.(*Sym); ok {
		c := fr.i.ctx
		v := c.Concretize(s.T, s.K, 80)
		if kindSigned(s.K) {
			w := uint(kindWidth(s.K))
			return int64(v<<(64-w)) >> (64 - w)
		}
		return int64(v)
	}
	return asInt64(x)
}

// checkIndex raises the Go runtime panic unless 0 <= idx < n. idx may be symbolic; the
// in-range value is returned concretised.
func (fr *frame) checkIndex(idx value, n int) int {
	c := fr.i.ctx
	if s, ok := idx.(*Sym); ok {
		var inr *sym.Term
		if c.Mode == Math {
			inr = c.B.And(c.B.IntCmp("<=", c.B.IntC64(0), s.T), c.B.IntCmp("<", s.T, c.B.IntC64(int64(n))))
		} else {
			w := kindWidth(s.K)
			if kindSigned(s.K) {
				inr = c.B.And(c.B.BVCmp("bvsle", c.B.BVC(0, w), s.T), c.B.BVCmp("bvslt", s.T, c.B.BVC(uint64(n), w)))
			} else {
				inr = c.B.BVCmp("bvult", s.T, c.B.BVC(uint64(n), w))
			}
		}
		if !c.Require(inr, "index in range") {
			c.runtimeError(fr, fmt.Sprintf("runtime error: index out of range [symbolic] with length %d", n))
		}
		return int(fr.intArg(idx))
	}
	var i int64
	neg := false
	if u, ok := idx.(uint64); ok && u > 1<<62 {
		i = 1 << 62
	} else if u, ok := idx.(uint); ok && u > 1<<62 {
		i = 1 << 62
	} else {
		i = asInt64(idx)
		neg = i < 0
	}
	if neg || i >= int64(n) {
		c.Trivial++
		c.runtimeError(fr, fmt.Sprintf("runtime error: index out of range [%d] with length %d", i, n))
	}
	return int(i)
}

func (fr *frame) slice(x, lo, hi, max value) value {
	c := fr.i.ctx
	var Len, Cap int
	isStr := false
	switch x := x.(type) {
	case string:
		Len = len(x)
		Cap = Len
		isStr = true
	case *SymStr:
		Len = len(x.B)
		Cap = Len
		isStr = true
	case []value:
		Len = len(x)
		Cap = cap(x)
	case *value: // *array
		if x == nil {
			c.runtimeError(fr, "runtime error: invalid memory address or nil pointer dereference")
		}
		a := (*x).(array)
		Len = len(a)
		Cap = cap(a)
	}
	_ = Len
	// Build symbolic bounds condition when any bound is symbolic.
	anySym := isSym(lo) || isSym(hi) || isSym(max)
	if anySym {
		// condition: 0 <= lo <= hi <= max <= cap  (as 64-bit signed quantities)
		to64 := func(v value, def int) *sym.Term {
			if v == nil {
				if c.Mode == Math {
					return c.B.IntC64(int64(def))
				}
				return c.B.BVC(uint64(def), 64)
			}
			if s, ok := v.(*Sym); ok {
				if c.Mode == Math {
					return s.T
				}
				if kindSigned(s.K) {
					return c.B.SExt(s.T, 64)
				}
				if kindWidth(s.K) == 64 {
					// unsigned 64-bit: values >= 2^63 become negative and fail the check, as they must
					return s.T
				}
				return c.B.ZExt(s.T, 64)
			}
			if c.Mode == Math {
				return c.B.IntC64(asInt64(v))
			}
			return c.B.BVC(uint64(asInt64(v)), 64)
		}
		le := func(a, b *sym.Term) *sym.Term {
			if c.Mode == Math {
				return c.B.IntCmp("<=", a, b)
			}
			return c.B.BVCmp("bvsle", a, b)
		}
		hdef := Len
		tl, th, tm := to64(lo, 0), to64(hi, hdef), to64(max, Cap)
		var capT *sym.Term
		if c.Mode == Math {
			capT = c.B.IntC64(int64(Cap))
		} else {
			capT = c.B.BVC(uint64(Cap), 64)
		}
		var z *sym.Term
		if c.Mode == Math {
			z = c.B.IntC64(0)
		} else {
			z = c.B.BVC(0, 64)
		}
		cond := c.B.And(le(z, tl), le(tl, th), le(th, tm), le(tm, capT))
		if !c.Require(cond, "slice bounds in range") {
			c.runtimeError(fr, fmt.Sprintf("runtime error: slice bounds out of range [symbolic] with capacity %d", Cap))
		}
	}
	l := int64(0)
	if lo != nil {
		l = fr.intArg(lo)
	}
	h := int64(Len)
	if hi != nil {
		h = fr.intArg(hi)
	}
	m := int64(Cap)
	if max != nil {
		m = fr.intArg(max)
	}
	if isStr {
		m = int64(Len)
	}
	if l < 0 || h < l || m < h || m > int64(Cap) {
		c.Trivial++
		c.runtimeError(fr, fmt.Sprintf("runtime error: slice bounds out of range [%d:%d:%d] with capacity %d", l, h, m, Cap))
	}
	switch x := x.(type) {
	case string:
		return x[l:h]
	case *SymStr:
		return mkString(x.B[l:h])
	case []value:
		return x[l:h:m]
	case *value: // *array
		a := (*x).(array)
		return []value(a)[l:h:m]
	}
	panic(fmt.Sprintf("slice: unexpected X type: %T", x))
}

func (fr *frame) binop(op token.Token, t types.Type, x, y value) value {
	c := fr.i.ctx
	switch op {
	case token.EQL:
		return c.mkval(fr.eqnil(t, x, y), types.Bool)
	case token.NEQ:
		return c.mkval(c.B.Not(fr.eqnil(t, x, y)), types.Bool)
	}
	// strings
	if isString(x) && isString(y) {
		_, xs := x.(*SymStr)
		_, ys := y.(*SymStr)
		if xs || ys {
			switch op {
			case token.ADD:
				return mkString(append(append([]value{}, strBytes(x)...), strBytes(y)...))
			case token.LSS:
				return c.mkval(c.strLess(x, y), types.Bool)
			case token.GTR:
				return c.mkval(c.strLess(y, x), types.Bool)
			case token.LEQ:
				return c.mkval(c.B.Not(c.strLess(y, x)), types.Bool)
			case token.GEQ:
				return c.mkval(c.B.Not(c.strLess(x, y)), types.Bool)
			}
		}
	}
	if isSym(x) || isSym(y) {
		return c.symBinop(fr, op, x, y)
	}
	// concrete: division by zero must be a target panic, not a host panic
	if op == token.QUO || op == token.REM {
		if k := kindOfValue(y); kindIsInt(k) && rawBits(y) == 0 {
			c.Trivial++
			c.runtimeError(fr, "runtime error: integer divide by zero")
		}
	}
	if op == token.SHL || op == token.SHR {
		if k := kindOfValue(y); kindSigned(k) && asInt64(y) < 0 {
			c.runtimeError(fr, "runtime error: negative shift amount")
		}
	}
	return concBinop(op, t, x, y)
}

func (fr *frame) eqnil(t types.Type, x, y value) *sym.Term {
	c := fr.i.ctx
	switch t.Underlying().(type) {
	case *types.Map, *types.Signature, *types.Slice:
		switch x := x.(type) {
		case *smap:
			return c.B.BoolC((x != nil) == (y.(*smap) != nil))
		case *ssa.Function:
			switch y := y.(type) {
			case *ssa.Function:
				return c.B.BoolC((x != nil) == (y != nil))
			case *closure, *hostFunc:
				return c.B.BoolC(x != nil)
			}
		case *closure:
			return c.B.BoolC((x != nil) == !isNilFunc(y))
		case *hostFunc:
			return c.B.BoolC((x != nil) == !isNilFunc(y))
		case []value:
			return c.B.BoolC((x != nil) == (y.([]value) != nil))
		}
		panic(fmt.Sprintf("eqnil(%s): illegal dynamic type: %T", t, x))
	}
	return c.eqv(t, x, y)
}

func isNilFunc(v value) bool {
	switch v := v.(type) {
	case *ssa.Function:
		return v == nil
	case *closure:
		return v == nil
	case *hostFunc:
		return v == nil
	}
	return false
}

func (fr *frame) unop(instr *ssa.UnOp, x value) value {
	c := fr.i.ctx
	switch instr.Op {
	case token.ARROW: // receive
		return fr.recv(x.(*channel), instr.X.Type().Underlying().(*types.Chan).Elem(), instr.CommaOk)
	case token.MUL:
		p := x.(*value)
		if p == nil {
			c.runtimeError(fr, "runtime error: invalid memory address or nil pointer dereference")
		}
		return load(mustDeref(instr.X.Type()), p)
	}
	if s, ok := x.(*Sym); ok {
		return c.symUnop(fr, instr.Op, s)
	}
	switch instr.Op {
	case token.SUB:
		switch x := x.(type) {
		case int:
			return -x
		case int8:
			return -x
		case int16:
			return -x
		case int32:
			return -x
		case int64:
			return -x
		case uint:
			return -x
		case uint8:
			return -x
		case uint16:
			return -x
		case uint32:
			return -x
		case uint64:
			return -x
		case uintptr:
			return -x
		case float32:
			return -x
		case float64:
			return -x
		case complex64:
			return -x
		case complex128:
			return -x
		}
	case token.NOT:
		return !x.(bool)
	case token.XOR:
		switch x := x.(type) {
		case int:
			return ^x
		case int8:
			return ^x
		case int16:
			return ^x
		case int32:
			return ^x
		case int64:
			return ^x
		case uint:
			return ^x
		case uint8:
			return ^x
		case uint16:
			return ^x
		case uint32:
			return ^x
		case uint64:
			return ^x
		case uintptr:
			return ^x
		}
	}
	panic(fmt.Sprintf("invalid unary op %s %T", instr.Op, x))
}

func (fr *frame) typeAssert(instr *ssa.TypeAssert, itf iface) value {
	i := fr.i
	var v value
	err := ""
	if itf.t == nil {
		err = fmt.Sprintf("interface conversion: interface is nil, not %s", instr.AssertedType)
	} else if idst, ok := instr.AssertedType.Underlying().(*types.Interface); ok {
		v = itf
		err = checkInterface(i, idst, itf)
	} else if types.Identical(itf.t, instr.AssertedType) {
		v = itf.v // extract value
	} else {
		err = fmt.Sprintf("interface conversion: interface is %s, not %s", itf.t, instr.AssertedType)
	}
	if err != "" {
		if !instr.CommaOk {
			i.ctx.runtimeError(fr, err)
		}
		return tuple{zero(instr.AssertedType), false}
	}
	if instr.CommaOk {
		return tuple{v, true}
	}
	return v
}

func checkInterface(i *interpreter, itype *types.Interface, x iface) string {
	if meth, _ := types.MissingMethod(x.t, itype, true); meth != nil {
		return fmt.Sprintf("interface conversion: %v is not %v: missing method %s",
			x.t, itype, meth.Name())
	}
	return "" // ok
}

func (fr *frame) callBuiltin(callpos token.Pos, fn *ssa.Builtin, args []value) value {
	c := fr.i.ctx
	switch fn.Name() {
	case "append":
		if len(args) == 1 {
			return args[0]
		}
		if isString(args[1]) {
			arg0 := args[0].([]value)
			return append(arg0, strBytes(args[1])...)
		}
		src := args[1].([]value)
		if len(src) == 0 {
			return args[0]
		}
		cp := make([]value, len(src))
		for i := range src {
			cp[i] = copyVal(src[i])
		}
		return append(args[0].([]value), cp...)

	case "copy": // copy([]T, []T) int or copy([]byte, string) int
		src := args[1]
		var sv []value
		if isString(src) {
			sv = strBytes(src)
		} else {
			sv = src.([]value)
		}
		dst := args[0].([]value)
		n := len(sv)
		if len(dst) < n {
			n = len(dst)
		}
		// memmove semantics
		tmp := make([]value, n)
		for i := 0; i < n; i++ {
			tmp[i] = copyVal(sv[i])
		}
		copy(dst, tmp)
		return n

	case "close": // close(chan T)
		ch := args[0].(*channel)
		if ch == nil {
			c.runtimeError(fr, "close of nil channel")
		}
		if ch.closed {
			c.runtimeError(fr, "close of closed channel")
		}
		ch.closed = true
		return nil

	case "delete": // delete(map[K]value, K)
		args[0].(*smap).delete(fr, args[1])
		return nil

	case "clear":
		switch x := args[0].(type) {
		case *smap:
			x.clear()
		case []value:
			if len(x) > 0 {
				// element type unknown here: zero by copying kind of existing value is unsafe;
				fr.i.ctx.end("UNSUPPORTED", "clear(slice)")
			}
		}
		return nil

	case "print", "println": // print(any, ...)
		return nil

	case "len":
		switch x := args[0].(type) {
		case string:
			return len(x)
		case *SymStr:
			return len(x.B)
		case array:
			return len(x)
		case *value:
			return len((*x).(array))
		case []value:
			return len(x)
		case *smap:
			return x.len()
		case *channel:
			if x == nil {
				return 0
			}
			return len(x.buf)
		default:
			panic(fmt.Sprintf("len: illegal operand: %T", x))
		}

	case "cap":
		switch x := args[0].(type) {
		case array:
			return cap(x)
		case *value:
			return cap((*x).(array))
		case []value:
			return cap(x)
		case *channel:
			if x == nil {
				return 0
			}
			return x.cap
		default:
			panic(fmt.Sprintf("cap: illegal operand: %T", x))
		}

	case "min":
		return fr.foldMinMax(token.LSS, args)
	case "max":
		return fr.foldMinMax(token.GTR, args)

	case "real":
		switch c := args[0].(type) {
		case complex64:
			return real(c)
		case complex128:
			return real(c)
		}
	case "imag":
		switch c := args[0].(type) {
		case complex64:
			return imag(c)
		case complex128:
			return imag(c)
		}
	case "complex":
		switch f := args[0].(type) {
		case float32:
			return complex(f, args[1].(float32))
		case float64:
			return complex(f, args[1].(float64))
		}

	case "panic":
		panic(targetPanic{v: args[0], site: fr.site()})

	case "recover":
		return doRecover(fr)

	case "ssa:wrapnilchk":
		recv := args[0]
		if recv.(*value) == nil {
			recvType := args[1]
			methodName := args[2]
			c.runtimeError(fr, fmt.Sprintf("value method (%s).%s called using nil *%s pointer",
				recvType, methodName, recvType))
		}
		return recv

	case "ssa:deferstack":
		return &fr.defers
	}

	panic("unknown built-in: " + fn.Name())
}

func (fr *frame) foldMinMax(op token.Token, args []value) value {
	c := fr.i.ctx
	x := args[0]
	for _, y := range args[1:] {
		if isSym(x) || isSym(y) {
			k := kindOfValue(x)
			if k == types.Invalid {
				k = kindOfValue(y)
			}
			if kindIsFloat(k) && c.Mode == Machine {
				c.end("UNSUPPORTED", "symbolic float min/max builtin")
			}
			cond := c.termOf(c.symBinop(fr, op, y, x))
			x = c.mkval(c.B.Ite(cond, c.termOf(y), c.termOf(x)), k)
			continue
		}
		if isString(x) {
			if c.strLess(y, x).IsTrue() == (op == token.LSS) && !c.strEq(x, y).IsTrue() {
				x = y
			}
			continue
		}
		if concBinop(op, nil, y, x).(bool) {
			x = y
		}
	}
	return x
}

// --- range ---------------------------------------------------------------------------------

type stringIter struct {
	s value
	i int
}

func (it *stringIter) next(fr *frame) tuple {
	okv := make(tuple, 3)
	n := strLen(it.s)
	if it.i >= n {
		okv[0] = false
		return okv
	}
	okv[0] = true
	okv[1] = it.i
	switch s := it.s.(type) {
	case string:
		r, sz := utf8.DecodeRuneInString(s[it.i:])
		okv[2] = r
		it.i += sz
	case *SymStr:
		// symbolic bytes: decode by case split on the lead byte class
		c := fr.i.ctx
		b0 := s.B[it.i]
		if cb, ok := b0.(byte); ok && cb < utf8.RuneSelf {
			okv[2] = rune(cb)
			it.i++
			break
		}
		if sb, ok := b0.(*Sym); ok {
			var ascii *sym.Term
			if c.Mode == Math {
				ascii = c.B.IntCmp("<", sb.T, c.B.IntC64(0x80))
			} else {
				ascii = c.B.BVCmp("bvult", sb.T, c.B.BVC(0x80, 8))
			}
			if c.Branch(ascii) {
				okv[2] = c.symConv(fr, sb, types.Int32)
				it.i++
				break
			}
		}
		// multi-byte: concretise the remaining (at most 4) bytes
		var buf []byte
		for j := it.i; j < n && j < it.i+4; j++ {
			switch b := s.B[j].(type) {
			case byte:
				buf = append(buf, b)
			case *Sym:
				buf = append(buf, byte(c.Concretize(b.T, b.K, 300)))
			}
		}
		r, sz := utf8.DecodeRune(buf)
		okv[2] = r
		it.i += sz
	}
	return okv
}

func (fr *frame) rangeIter(x value, t types.Type) iter {
	switch x := x.(type) {
	case *smap:
		return x.iter()
	case string, *SymStr:
		return &stringIter{s: x}
	}
	panic(fmt.Sprintf("cannot range over %T", x))
}

// --- conversions ---------------------------------------------------------------------------

func (fr *frame) conv(t_dst, t_src types.Type, x value) value {
	c := fr.i.ctx
	ut_src := t_src.Underlying()
	ut_dst := t_dst.Underlying()

	switch ut_src := ut_src.(type) {
	case *types.Pointer:
		switch ut_dst := ut_dst.(type) {
		case *types.Basic:
			if ut_dst.Kind() == types.UnsafePointer {
				return unsafePtr{p: x}
			}
		case *types.Pointer:
			return x
		}

	case *types.Slice:
		if _, ok := ut_dst.(*types.Slice); ok {
			return x
		}
		eb, ok := ut_src.Elem().Underlying().(*types.Basic)
		if !ok {
			break
		}
		switch eb.Kind() {
		case types.Byte:
			return mkString(x.([]value))
		case types.Rune:
			x := x.([]value)
			r := make([]rune, 0, len(x))
			for i := range x {
				rv, ok := x[i].(rune)
				if !ok {
					c.end("UNSUPPORTED", "string([]rune) with symbolic rune")
				}
				r = append(r, rv)
			}
			return string(r)
		}

	case *types.Basic:
		if ut_src.Kind() == types.UnsafePointer {
			if up, ok := x.(unsafePtr); ok {
				if _, ok := ut_dst.(*types.Pointer); ok {
					if up.p == nil {
						return zero(t_dst)
					}
					return up.p
				}
				return x
			}
			return zero(t_dst)
		}
		if isString(x) {
			switch ut_dst := ut_dst.(type) {
			case *types.Slice:
				switch ut_dst.Elem().Underlying().(*types.Basic).Kind() {
				case types.Rune:
					s, ok := x.(string)
					if !ok {
						c.end("UNSUPPORTED", "[]rune(symbolic string)")
					}
					var res []value
					for _, r := range []rune(s) {
						res = append(res, r)
					}
					return res
				case types.Byte:
					bs := strBytes(x)
					res := make([]value, len(bs))
					copy(res, bs)
					return res
				}
			case *types.Basic:
				if ut_dst.Kind() == types.String {
					return x
				}
			}
			break
		}
		dstb, ok := ut_dst.(*types.Basic)
		if !ok {
			break
		}
		if s, ok := x.(*Sym); ok {
			if dstb.Kind() == types.String {
				// string(rune) with symbolic rune
				v := c.Concretize(s.T, s.K, 300)
				return string(rune(int32(v)))
			}
			return c.symConv(fr, s, normKind(dstb.Kind()))
		}
		if ut_src.Info()&types.IsInteger != 0 && dstb.Kind() == types.String {
			return string(rune(asInt64(x)))
		}
		if ut_src.Info()&types.IsComplex != 0 {
			x = widen(x)
			switch dstb.Kind() {
			case types.Complex64:
				return complex64(x.(complex128))
			case types.Complex128:
				return x.(complex128)
			}
			break
		}
		if ut_src.Info()&types.IsBoolean != 0 {
			return x
		}
		if ut_src.Info()&types.IsNumeric != 0 {
			return concConvNum(x, normKind(dstb.Kind()))
		}
	}

	panic(fmt.Sprintf("unsupported conversion: %s  -> %s, dynamic type %T", t_src, t_dst, x))
}

func (fr *frame) sliceToArrayPointer(t_dst, t_src types.Type, x value) value {
	if _, ok := t_src.Underlying().(*types.Slice); ok {
		if ptr, ok := t_dst.Underlying().(*types.Pointer); ok {
			if arr, ok := ptr.Elem().Underlying().(*types.Array); ok {
				x := x.([]value)
				if arr.Len() > int64(len(x)) {
					fr.i.ctx.runtimeError(fr, "runtime error: cannot convert slice to array pointer: length mismatch")
				}
				if x == nil {
					return zero(t_dst)
				}
				v := value(array(x[:arr.Len()]))
				return &v
			}
		}
	}
	panic(fmt.Sprintf("unsupported conversion: %s  -> %s, dynamic type %T", t_src, t_dst, x))
}

var _ = strings.Builder{}
