// Derived from golang.org/x/tools/go/ssa/interp (BSD-style licence, see LICENSE.x-tools).
// Concrete scalar operators, unchanged from the original apart from renaming.

package interp

import (
	"fmt"
	"go/constant"
	"go/token"
	"go/types"

	"golang.org/x/tools/go/ssa"
)

func constValue(c *ssa.Const) value {
	if c.Value == nil {
		return zero(c.Type()) // typed zero
	}
	// c is not a type parameter so it's underlying type is basic.

	if t, ok := c.Type().Underlying().(*types.Basic); ok {
		// TODO(adonovan): eliminate untyped constants from SSA form.
		switch t.Kind() {
		case types.Bool, types.UntypedBool:
			return constant.BoolVal(c.Value)
		case types.Int, types.UntypedInt:
			// Assume sizeof(int) is same on host and target.
			return int(c.Int64())
		case types.Int8:
			return int8(c.Int64())
		case types.Int16:
			return int16(c.Int64())
		case types.Int32, types.UntypedRune:
			return int32(c.Int64())
		case types.Int64:
			return c.Int64()
		case types.Uint:
			// Assume sizeof(uint) is same on host and target.
			return uint(c.Uint64())
		case types.Uint8:
			return uint8(c.Uint64())
		case types.Uint16:
			return uint16(c.Uint64())
		case types.Uint32:
			return uint32(c.Uint64())
		case types.Uint64:
			return c.Uint64()
		case types.Uintptr:
			// Assume sizeof(uintptr) is same on host and target.
			return uintptr(c.Uint64())
		case types.Float32:
			return float32(c.Float64())
		case types.Float64, types.UntypedFloat:
			return c.Float64()
		case types.Complex64:
			return complex64(c.Complex128())
		case types.Complex128, types.UntypedComplex:
			return c.Complex128()
		case types.String, types.UntypedString:
			if c.Value.Kind() == constant.String {
				return constant.StringVal(c.Value)
			}
			return string(rune(c.Int64()))
		}
	}

	panic(fmt.Sprintf("constValue: %s", c))
}

func fitsInt(x int64, sizes types.Sizes) bool {
	intSize := sizes.Sizeof(types.Typ[types.Int])
	if intSize < sizes.Sizeof(types.Typ[types.Int64]) {
		maxInt := int64(1)<<((intSize*8)-1) - 1
		minInt := -int64(1) << ((intSize * 8) - 1)
		return minInt <= x && x <= maxInt
	}
	return true
}

func asInt64(x value) int64 {
	switch x := x.(type) {
	case int:
		return int64(x)
	case int8:
		return int64(x)
	case int16:
		return int64(x)
	case int32:
		return int64(x)
	case int64:
		return x
	case uint:
		return int64(x)
	case uint8:
		return int64(x)
	case uint16:
		return int64(x)
	case uint32:
		return int64(x)
	case uint64:
		return int64(x)
	case uintptr:
		return int64(x)
	}
	panic(fmt.Sprintf("cannot convert %T to int64", x))
}

func asUint64(x value) uint64 {
	switch x := x.(type) {
	case uint:
		return uint64(x)
	case uint8:
		return uint64(x)
	case uint16:
		return uint64(x)
	case uint32:
		return uint64(x)
	case uint64:
		return x
	case uintptr:
		return uint64(x)
	}
	panic(fmt.Sprintf("cannot convert %T to uint64", x))
}

func asUnsigned(x value) (value, bool) {
	switch x := x.(type) {
	case int:
		return uint(x), x >= 0
	case int8:
		return uint8(x), x >= 0
	case int16:
		return uint16(x), x >= 0
	case int32:
		return uint32(x), x >= 0
	case int64:
		return uint64(x), x >= 0
	case uint, uint8, uint32, uint64, uintptr:
		return x, true
	}
	panic(fmt.Sprintf("cannot convert %T to unsigned", x))
}

func concBinop(op token.Token, t types.Type, x, y value) value {
	switch op {
	case token.ADD:
		switch x.(type) {
		case int:
			return x.(int) + y.(int)
		case int8:
			return x.(int8) + y.(int8)
		case int16:
			return x.(int16) + y.(int16)
		case int32:
			return x.(int32) + y.(int32)
		case int64:
			return x.(int64) + y.(int64)
		case uint:
			return x.(uint) + y.(uint)
		case uint8:
			return x.(uint8) + y.(uint8)
		case uint16:
			return x.(uint16) + y.(uint16)
		case uint32:
			return x.(uint32) + y.(uint32)
		case uint64:
			return x.(uint64) + y.(uint64)
		case uintptr:
			return x.(uintptr) + y.(uintptr)
		case float32:
			return x.(float32) + y.(float32)
		case float64:
			return x.(float64) + y.(float64)
		case complex64:
			return x.(complex64) + y.(complex64)
		case complex128:
			return x.(complex128) + y.(complex128)
		case string:
			return x.(string) + y.(string)
		}

	case token.SUB:
		switch x.(type) {
		case int:
			return x.(int) - y.(int)
		case int8:
			return x.(int8) - y.(int8)
		case int16:
			return x.(int16) - y.(int16)
		case int32:
			return x.(int32) - y.(int32)
		case int64:
			return x.(int64) - y.(int64)
		case uint:
			return x.(uint) - y.(uint)
		case uint8:
			return x.(uint8) - y.(uint8)
		case uint16:
			return x.(uint16) - y.(uint16)
		case uint32:
			return x.(uint32) - y.(uint32)
		case uint64:
			return x.(uint64) - y.(uint64)
		case uintptr:
			return x.(uintptr) - y.(uintptr)
		case float32:
			return x.(float32) - y.(float32)
		case float64:
			return x.(float64) - y.(float64)
		case complex64:
			return x.(complex64) - y.(complex64)
		case complex128:
			return x.(complex128) - y.(complex128)
		}

	case token.MUL:
		switch x.(type) {
		case int:
			return x.(int) * y.(int)
		case int8:
			return x.(int8) * y.(int8)
		case int16:
			return x.(int16) * y.(int16)
		case int32:
			return x.(int32) * y.(int32)
		case int64:
			return x.(int64) * y.(int64)
		case uint:
			return x.(uint) * y.(uint)
		case uint8:
			return x.(uint8) * y.(uint8)
		case uint16:
			return x.(uint16) * y.(uint16)
		case uint32:
			return x.(uint32) * y.(uint32)
		case uint64:
			return x.(uint64) * y.(uint64)
		case uintptr:
			return x.(uintptr) * y.(uintptr)
		case float32:
			return x.(float32) * y.(float32)
		case float64:
			return x.(float64) * y.(float64)
		case complex64:
			return x.(complex64) * y.(complex64)
		case complex128:
			return x.(complex128) * y.(complex128)
		}

	case token.QUO:
		switch x.(type) {
		case int:
			return x.(int) / y.(int)
		case int8:
			return x.(int8) / y.(int8)
		case int16:
			return x.(int16) / y.(int16)
		case int32:
			return x.(int32) / y.(int32)
		case int64:
			return x.(int64) / y.(int64)
		case uint:
			return x.(uint) / y.(uint)
		case uint8:
			return x.(uint8) / y.(uint8)
		case uint16:
			return x.(uint16) / y.(uint16)
		case uint32:
			return x.(uint32) / y.(uint32)
		case uint64:
			return x.(uint64) / y.(uint64)
		case uintptr:
			return x.(uintptr) / y.(uintptr)
		case float32:
			return x.(float32) / y.(float32)
		case float64:
			return x.(float64) / y.(float64)
		case complex64:
			return x.(complex64) / y.(complex64)
		case complex128:
			return x.(complex128) / y.(complex128)
		}

	case token.REM:
		switch x.(type) {
		case int:
			return x.(int) % y.(int)
		case int8:
			return x.(int8) % y.(int8)
		case int16:
			return x.(int16) % y.(int16)
		case int32:
			return x.(int32) % y.(int32)
		case int64:
			return x.(int64) % y.(int64)
		case uint:
			return x.(uint) % y.(uint)
		case uint8:
			return x.(uint8) % y.(uint8)
		case uint16:
			return x.(uint16) % y.(uint16)
		case uint32:
			return x.(uint32) % y.(uint32)
		case uint64:
			return x.(uint64) % y.(uint64)
		case uintptr:
			return x.(uintptr) % y.(uintptr)
		}

	case token.AND:
		switch x.(type) {
		case int:
			return x.(int) & y.(int)
		case int8:
			return x.(int8) & y.(int8)
		case int16:
			return x.(int16) & y.(int16)
		case int32:
			return x.(int32) & y.(int32)
		case int64:
			return x.(int64) & y.(int64)
		case uint:
			return x.(uint) & y.(uint)
		case uint8:
			return x.(uint8) & y.(uint8)
		case uint16:
			return x.(uint16) & y.(uint16)
		case uint32:
			return x.(uint32) & y.(uint32)
		case uint64:
			return x.(uint64) & y.(uint64)
		case uintptr:
			return x.(uintptr) & y.(uintptr)
		}

	case token.OR:
		switch x.(type) {
		case int:
			return x.(int) | y.(int)
		case int8:
			return x.(int8) | y.(int8)
		case int16:
			return x.(int16) | y.(int16)
		case int32:
			return x.(int32) | y.(int32)
		case int64:
			return x.(int64) | y.(int64)
		case uint:
			return x.(uint) | y.(uint)
		case uint8:
			return x.(uint8) | y.(uint8)
		case uint16:
			return x.(uint16) | y.(uint16)
		case uint32:
			return x.(uint32) | y.(uint32)
		case uint64:
			return x.(uint64) | y.(uint64)
		case uintptr:
			return x.(uintptr) | y.(uintptr)
		}

	case token.XOR:
		switch x.(type) {
		case int:
			return x.(int) ^ y.(int)
		case int8:
			return x.(int8) ^ y.(int8)
		case int16:
			return x.(int16) ^ y.(int16)
		case int32:
			return x.(int32) ^ y.(int32)
		case int64:
			return x.(int64) ^ y.(int64)
		case uint:
			return x.(uint) ^ y.(uint)
		case uint8:
			return x.(uint8) ^ y.(uint8)
		case uint16:
			return x.(uint16) ^ y.(uint16)
		case uint32:
			return x.(uint32) ^ y.(uint32)
		case uint64:
			return x.(uint64) ^ y.(uint64)
		case uintptr:
			return x.(uintptr) ^ y.(uintptr)
		}

	case token.AND_NOT:
		switch x.(type) {
		case int:
			return x.(int) &^ y.(int)
		case int8:
			return x.(int8) &^ y.(int8)
		case int16:
			return x.(int16) &^ y.(int16)
		case int32:
			return x.(int32) &^ y.(int32)
		case int64:
			return x.(int64) &^ y.(int64)
		case uint:
			return x.(uint) &^ y.(uint)
		case uint8:
			return x.(uint8) &^ y.(uint8)
		case uint16:
			return x.(uint16) &^ y.(uint16)
		case uint32:
			return x.(uint32) &^ y.(uint32)
		case uint64:
			return x.(uint64) &^ y.(uint64)
		case uintptr:
			return x.(uintptr) &^ y.(uintptr)
		}

	case token.SHL:
		u, ok := asUnsigned(y)
		if !ok {
			panic("negative shift amount")
		}
		y := asUint64(u)
		switch x.(type) {
		case int:
			return x.(int) << y
		case int8:
			return x.(int8) << y
		case int16:
			return x.(int16) << y
		case int32:
			return x.(int32) << y
		case int64:
			return x.(int64) << y
		case uint:
			return x.(uint) << y
		case uint8:
			return x.(uint8) << y
		case uint16:
			return x.(uint16) << y
		case uint32:
			return x.(uint32) << y
		case uint64:
			return x.(uint64) << y
		case uintptr:
			return x.(uintptr) << y
		}

	case token.SHR:
		u, ok := asUnsigned(y)
		if !ok {
			panic("negative shift amount")
		}
		y := asUint64(u)
		switch x.(type) {
		case int:
			return x.(int) >> y
		case int8:
			return x.(int8) >> y
		case int16:
			return x.(int16) >> y
		case int32:
			return x.(int32) >> y
		case int64:
			return x.(int64) >> y
		case uint:
			return x.(uint) >> y
		case uint8:
			return x.(uint8) >> y
		case uint16:
			return x.(uint16) >> y
		case uint32:
			return x.(uint32) >> y
		case uint64:
			return x.(uint64) >> y
		case uintptr:
			return x.(uintptr) >> y
		}

	case token.LSS:
		switch x.(type) {
		case int:
			return x.(int) < y.(int)
		case int8:
			return x.(int8) < y.(int8)
		case int16:
			return x.(int16) < y.(int16)
		case int32:
			return x.(int32) < y.(int32)
		case int64:
			return x.(int64) < y.(int64)
		case uint:
			return x.(uint) < y.(uint)
		case uint8:
			return x.(uint8) < y.(uint8)
		case uint16:
			return x.(uint16) < y.(uint16)
		case uint32:
			return x.(uint32) < y.(uint32)
		case uint64:
			return x.(uint64) < y.(uint64)
		case uintptr:
			return x.(uintptr) < y.(uintptr)
		case float32:
			return x.(float32) < y.(float32)
		case float64:
			return x.(float64) < y.(float64)
		case string:
			return x.(string) < y.(string)
		}

	case token.LEQ:
		switch x.(type) {
		case int:
			return x.(int) <= y.(int)
		case int8:
			return x.(int8) <= y.(int8)
		case int16:
			return x.(int16) <= y.(int16)
		case int32:
			return x.(int32) <= y.(int32)
		case int64:
			return x.(int64) <= y.(int64)
		case uint:
			return x.(uint) <= y.(uint)
		case uint8:
			return x.(uint8) <= y.(uint8)
		case uint16:
			return x.(uint16) <= y.(uint16)
		case uint32:
			return x.(uint32) <= y.(uint32)
		case uint64:
			return x.(uint64) <= y.(uint64)
		case uintptr:
			return x.(uintptr) <= y.(uintptr)
		case float32:
			return x.(float32) <= y.(float32)
		case float64:
			return x.(float64) <= y.(float64)
		case string:
			return x.(string) <= y.(string)
		}

	case token.GTR:
		switch x.(type) {
		case int:
			return x.(int) > y.(int)
		case int8:
			return x.(int8) > y.(int8)
		case int16:
			return x.(int16) > y.(int16)
		case int32:
			return x.(int32) > y.(int32)
		case int64:
			return x.(int64) > y.(int64)
		case uint:
			return x.(uint) > y.(uint)
		case uint8:
			return x.(uint8) > y.(uint8)
		case uint16:
			return x.(uint16) > y.(uint16)
		case uint32:
			return x.(uint32) > y.(uint32)
		case uint64:
			return x.(uint64) > y.(uint64)
		case uintptr:
			return x.(uintptr) > y.(uintptr)
		case float32:
			return x.(float32) > y.(float32)
		case float64:
			return x.(float64) > y.(float64)
		case string:
			return x.(string) > y.(string)
		}

	case token.GEQ:
		switch x.(type) {
		case int:
			return x.(int) >= y.(int)
		case int8:
			return x.(int8) >= y.(int8)
		case int16:
			return x.(int16) >= y.(int16)
		case int32:
			return x.(int32) >= y.(int32)
		case int64:
			return x.(int64) >= y.(int64)
		case uint:
			return x.(uint) >= y.(uint)
		case uint8:
			return x.(uint8) >= y.(uint8)
		case uint16:
			return x.(uint16) >= y.(uint16)
		case uint32:
			return x.(uint32) >= y.(uint32)
		case uint64:
			return x.(uint64) >= y.(uint64)
		case uintptr:
			return x.(uintptr) >= y.(uintptr)
		case float32:
			return x.(float32) >= y.(float32)
		case float64:
			return x.(float64) >= y.(float64)
		case string:
			return x.(string) >= y.(string)
		}
	}
	panic(fmt.Sprintf("invalid binary op: %T %s %T", x, op, y))
}

func widen(x value) value {
	switch y := x.(type) {
	case bool, int64, uint64, float64, complex128, string:
		return x
	case int:
		return int64(y)
	case int8:
		return int64(y)
	case int16:
		return int64(y)
	case int32:
		return int64(y)
	case uint:
		return uint64(y)
	case uint8:
		return uint64(y)
	case uint16:
		return uint64(y)
	case uint32:
		return uint64(y)
	case uintptr:
		return uint64(y)
	case float32:
		return float64(y)
	case complex64:
		return complex128(y)
	}
	panic(fmt.Sprintf("cannot widen %T", x))
}

