// Derived from golang.org/x/tools/go/ssa/interp (BSD-style licence, see LICENSE.x-tools).
// Symbolic SSA interpreter of the symx engine: see /verif/DESIGN.md §2.

package interp

import (
	"fmt"
	"go/token"
	"go/types"
	"os"
	"runtime"
	"slices"
	"strings"

	"golang.org/x/tools/go/ssa"

	"symx/sym"
)

type continuation int

const (
	kNext continuation = iota
	kReturn
	kJump
)

type methodSet map[string]*ssa.Function

// Program is the immutable, shareable part: the SSA program and lookup tables.
type Program struct {
	Prog               *ssa.Program
	runtimeErrorString types.Type
	Sizes              types.Sizes
	StdPkgs            map[*ssa.Package]bool // packages whose globals persist across paths
}

// interpreter is the per-worker mutable state.
type interpreter struct {
	p                  *Program
	prog               *ssa.Program
	globals            map[*ssa.Global]*value
	inited             map[*ssa.Package]bool
	stdGlobals         map[*ssa.Global]*value // persisted across paths
	stdInited          map[*ssa.Package]bool
	runtimeErrorString types.Type
	ctx                *Ctx
	depth              int
	funcsSeen          map[*ssa.Function]bool
	chanSeq            int
	trace              bool
	stubs              map[string]externalFn // per-run overrides (harness specific)
	pools              map[*value][]value
	forceInit          *ssa.Function
	regexes            map[*value]*regexHandle
	sch                *sched
	protoSeq           int
	manualTimers       bool
	jsonStreams        map[*value]*jsonStream
	jsonCodecs         map[*value]*jsonCodec
	pendingTimers      []*channel
	pendingTickers     []*channel
	protoMsgs          map[string]iface
	nowHook            *value // harness clock cell (unix nanos), if the harness installed one
	lastNow            value
}

type deferred struct {
	fn    value
	args  []value
	instr *ssa.Defer
	tail  *deferred
}

type frame struct {
	i                *interpreter
	caller           *frame
	fn               *ssa.Function
	block, prevBlock *ssa.BasicBlock
	env              map[ssa.Value]value // dynamic values of SSA variables
	locals           []value
	defers           *deferred
	result           value
	panicking        bool
	panic            interface{}
	phitemps         []value // temporaries for parallel phi assignment
	cur              ssa.Instruction
	callpos          token.Pos
}

func (fr *frame) site() string {
	if fr == nil || fr.fn == nil {
		return "?"
	}
	pos := token.NoPos
	if fr.cur != nil {
		pos = fr.cur.Pos()
	}
	fset := fr.fn.Prog.Fset
	if pos == token.NoPos {
		// fall back to function position
		pos = fr.fn.Pos()
	}
	p := fset.Position(pos)
	file := p.Filename
	if i := strings.Index(file, "/repo/"); i >= 0 {
		file = file[i+6:]
	}
	return fmt.Sprintf("%s@%s:%d", fr.fn.String(), file, p.Line)
}

func (fr *frame) stack() []string {
	var out []string
	for f := fr; f != nil && len(out) < 12; f = f.caller {
		out = append(out, f.site())
	}
	return out
}

func (fr *frame) get(key ssa.Value) value {
	switch key := key.(type) {
	case nil:
		return nil
	case *ssa.Function, *ssa.Builtin:
		return key
	case *ssa.Const:
		return constValue(key)
	case *ssa.Global:
		return fr.i.global(fr, key)
	}
	if r, ok := fr.env[key]; ok {
		return r
	}
	panic(fmt.Sprintf("get: no value for %T: %v in %s", key, key.Name(), fr.fn))
}

// global returns the address of a global, running its package's initialiser on first touch.
func (i *interpreter) global(fr *frame, g *ssa.Global) *value {
	if g.Pkg != nil {
		i.ensureInit(fr, g.Pkg)
	}
	if i.p.StdPkgs[g.Pkg] {
		if r, ok := i.stdGlobals[g]; ok {
			return r
		}
		cell := zero(mustDeref(g.Type()))
		i.stdGlobals[g] = &cell
		return &cell
	}
	if r, ok := i.globals[g]; ok {
		return r
	}
	cell := zero(mustDeref(g.Type()))
	i.globals[g] = &cell
	return &cell
}

// noInitPkgs are never initialised: their functions are all stubbed or irrelevant.
var noInitPkgs = map[string]bool{
	"runtime": true, "os": true, "syscall": true, "time": true, "reflect": true, "fmt": true,
	"sync": true, "sync/atomic": true, "internal/poll": true, "net": true, "net/http": true,
	"log": true, "internal/godebug": true, "internal/cpu": true,
	"github.com/sirupsen/logrus": true, "crypto/rand": true, "math/rand": true, "math/rand/v2": true,
	"internal/bytealg": true, "unsafe": true, "internal/abi": true, "runtime/debug": true,
	"os/signal": true, "testing": true,
	"encoding/json": true, "encoding/binary": true, "golang.org/x/sys/unix": true,
	"github.com/spf13/viper": true, "google.golang.org/protobuf/proto": true,
	"github.com/json-iterator/go": true, "github.com/modern-go/reflect2": true,
}

func (i *interpreter) ensureInit(fr *frame, pkg *ssa.Package) {
	std := i.p.StdPkgs[pkg]
	if std {
		if i.stdInited[pkg] {
			return
		}
		i.stdInited[pkg] = true
	} else {
		if i.inited[pkg] {
			return
		}
		i.inited[pkg] = true
	}
	path := pkg.Pkg.Path()
	if noInitPkgs[path] || strings.HasPrefix(path, "k8s.io/") || strings.HasPrefix(path, "sigs.k8s.io/") || strings.HasPrefix(path, "github.com/aws/") {
		return
	}
	initFn := pkg.Func("init")
	if initFn == nil || initFn.Blocks == nil {
		return
	}
	// mark the guard so that a recursive call through init() of an importer is a no-op
	i.callInit(fr, initFn)
}

func (i *interpreter) callInit(fr *frame, initFn *ssa.Function) {
	// Run with a context in which nothing is symbolic: init is deterministic.
	i.forceInit = initFn
	callSSA(i, fr, token.NoPos, initFn, nil, nil)
}

// runDefer runs a deferred call d.
// It always returns normally, but may set or clear fr.panic.
func (fr *frame) runDefer(d *deferred) {
	var ok bool
	defer func() {
		if !ok {
			r := recover()
			if pe, isEnd := r.(pathEnd); isEnd {
				panic(pe)
			}
			if pa, isAb := r.(pathAbort); isAb {
				panic(pa)
			}
			if _, isT := r.(targetPanic); !isT {
				panic(r) // interpreter bug: do not disguise as target panic
			}
			// Deferred call created a new state of panic.
			fr.panicking = true
			fr.panic = r
		}
	}()
	call(fr.i, fr, d.instr.Pos(), d.fn, d.args)
	ok = true
}

func (fr *frame) runDefers() {
	for d := fr.defers; d != nil; d = d.tail {
		fr.runDefer(d)
	}
	fr.defers = nil
	if fr.panicking {
		panic(fr.panic) // new panic, or still panicking
	}
}

func lookupMethod(i *interpreter, typ types.Type, meth *types.Func) *ssa.Function {
	return i.prog.LookupMethod(typ, meth.Pkg(), meth.Name())
}

// visitInstr interprets a single ssa.Instruction within the activation
// record frame.  It returns a continuation value indicating where to
// read the next instruction from.
func visitInstr(fr *frame, instr ssa.Instruction) continuation {
	c := fr.i.ctx
	fr.cur = instr
	c.steps++
	if c.steps > c.MaxSteps {
		c.end("BUDGET", "step budget exceeded")
	}
	switch instr := instr.(type) {
	case *ssa.DebugRef:
		// no-op

	case *ssa.UnOp:
		fr.env[instr] = fr.unop(instr, fr.get(instr.X))

	case *ssa.BinOp:
		fr.env[instr] = fr.binop(instr.Op, instr.X.Type(), fr.get(instr.X), fr.get(instr.Y))

	case *ssa.Call:
		fn, args := prepareCall(fr, &instr.Call)
		fr.env[instr] = call(fr.i, fr, instr.Pos(), fn, args)

	case *ssa.ChangeInterface:
		fr.env[instr] = fr.get(instr.X)

	case *ssa.ChangeType:
		fr.env[instr] = fr.get(instr.X) // (can't fail)

	case *ssa.Convert:
		fr.env[instr] = fr.conv(instr.Type(), instr.X.Type(), fr.get(instr.X))

	case *ssa.SliceToArrayPointer:
		fr.env[instr] = fr.sliceToArrayPointer(instr.Type(), instr.X.Type(), fr.get(instr.X))

	case *ssa.MakeInterface:
		fr.env[instr] = iface{t: instr.X.Type(), v: fr.get(instr.X)}

	case *ssa.Extract:
		fr.env[instr] = fr.get(instr.Tuple).(tuple)[instr.Index]

	case *ssa.Slice:
		fr.env[instr] = fr.slice(fr.get(instr.X), fr.get(instr.Low), fr.get(instr.High), fr.get(instr.Max))

	case *ssa.Return:
		switch len(instr.Results) {
		case 0:
		case 1:
			fr.result = fr.get(instr.Results[0])
		default:
			var res []value
			for _, r := range instr.Results {
				res = append(res, fr.get(r))
			}
			fr.result = tuple(res)
		}
		fr.block = nil
		return kReturn

	case *ssa.RunDefers:
		fr.runDefers()

	case *ssa.Panic:
		panic(targetPanic{v: fr.get(instr.X), site: fr.site()})

	case *ssa.Send:
		fr.send(fr.get(instr.Chan).(*channel), fr.get(instr.X))

	case *ssa.Store:
		addr := fr.get(instr.Addr).(*value)
		if addr == nil {
			c.runtimeError(fr, "runtime error: invalid memory address or nil pointer dereference")
		}
		store(mustDeref(instr.Addr.Type()), addr, fr.get(instr.Val))

	case *ssa.If:
		cond := fr.get(instr.Cond)
		succ := 1
		switch cv := cond.(type) {
		case bool:
			if cv {
				succ = 0
			}
		case *Sym:
			if fr.tryRegionMerge(instr, cv) {
				return kJump
			}
			if c.Branch(cv.T) {
				succ = 0
			}
		}
		fr.prevBlock, fr.block = fr.block, fr.block.Succs[succ]
		return kJump

	case *ssa.Jump:
		fr.prevBlock, fr.block = fr.block, fr.block.Succs[0]
		return kJump

	case *ssa.Defer:
		fn, args := prepareCall(fr, &instr.Call)
		defers := &fr.defers
		if into := fr.get(instr.DeferStack); into != nil {
			defers = into.(**deferred)
		}
		*defers = &deferred{
			fn:    fn,
			args:  args,
			instr: instr,
			tail:  *defers,
		}

	case *ssa.Go:
		fn, args := prepareCall(fr, &instr.Call)
		fr.spawn(instr, fn, args)

	case *ssa.MakeChan:
		fr.i.chanSeq++
		fr.env[instr] = &channel{cap: int(fr.intArg(fr.get(instr.Size))), id: fr.i.chanSeq}

	case *ssa.Alloc:
		var addr *value
		if instr.Heap {
			// new
			addr = new(value)
			fr.env[instr] = addr
		} else {
			// local
			addr = fr.env[instr].(*value)
		}
		*addr = zero(mustDeref(instr.Type()))

	case *ssa.MakeSlice:
		capv := fr.intArg(fr.get(instr.Cap))
		lenv := fr.intArg(fr.get(instr.Len))
		if lenv < 0 || capv > 1<<24 {
			// (the wording of the Go runtime, so that a native replay is recognised)
			c.runtimeError(fr, "runtime error: makeslice: len out of range")
		}
		if capv < lenv {
			c.runtimeError(fr, "runtime error: makeslice: cap out of range")
		}
		slice := make([]value, capv)
		tElt := instr.Type().Underlying().(*types.Slice).Elem()
		for i := range slice {
			slice[i] = zero(tElt)
		}
		fr.env[instr] = slice[:lenv]

	case *ssa.MakeMap:
		fr.env[instr] = makeMap(instr.Type().Underlying().(*types.Map).Key())

	case *ssa.Range:
		fr.env[instr] = fr.rangeIter(fr.get(instr.X), instr.X.Type())

	case *ssa.Next:
		fr.env[instr] = fr.get(instr.Iter).(iter).next(fr)

	case *ssa.FieldAddr:
		p := fr.get(instr.X).(*value)
		if p == nil {
			c.runtimeError(fr, "runtime error: invalid memory address or nil pointer dereference")
		}
		fr.env[instr] = &(*p).(structure)[instr.Field]

	case *ssa.Field:
		fr.env[instr] = fr.get(instr.X).(structure)[instr.Field]

	case *ssa.IndexAddr:
		x := fr.get(instr.X)
		idx := fr.get(instr.Index)
		switch x := x.(type) {
		case []value:
			fr.env[instr] = &x[fr.checkIndex(idx, len(x))]
		case *value: // *array
			if x == nil {
				c.runtimeError(fr, "runtime error: invalid memory address or nil pointer dereference")
			}
			a := (*x).(array)
			fr.env[instr] = &a[fr.checkIndex(idx, len(a))]
		default:
			panic(fmt.Sprintf("unexpected x type in IndexAddr: %T", x))
		}

	case *ssa.Index:
		x := fr.get(instr.X)
		idx := fr.get(instr.Index)
		switch x := x.(type) {
		case array:
			fr.env[instr] = copyVal(x[fr.checkIndex(idx, len(x))])
		case string:
			fr.env[instr] = x[fr.checkIndex(idx, len(x))]
		case *SymStr:
			fr.env[instr] = x.B[fr.checkIndex(idx, len(x.B))]
		default:
			panic(fmt.Sprintf("unexpected x type in Index: %T", x))
		}

	case *ssa.Lookup:
		x := fr.get(instr.X)
		if isString(x) {
			fr.env[instr] = strBytes(x)[fr.checkIndex(fr.get(instr.Index), strLen(x))]
		} else {
			fr.env[instr] = lookup(fr, instr, x, fr.get(instr.Index))
		}

	case *ssa.MapUpdate:
		m := fr.get(instr.Map).(*smap)
		m.insert(fr, copyVal(fr.get(instr.Key)), copyVal(fr.get(instr.Value)))

	case *ssa.TypeAssert:
		fr.env[instr] = fr.typeAssert(instr, fr.get(instr.X).(iface))

	case *ssa.MakeClosure:
		var bindings []value
		for _, binding := range instr.Bindings {
			bindings = append(bindings, fr.get(binding))
		}
		fr.env[instr] = &closure{instr.Fn.(*ssa.Function), bindings}

	case *ssa.Phi:
		panic("unreachable: phis are processed at block entry")

	case *ssa.Select:
		fr.env[instr] = fr.doSelect(instr)

	default:
		panic(fmt.Sprintf("unexpected instruction: %T", instr))
	}
	return kNext
}

func prepareCall(fr *frame, call *ssa.CallCommon) (fn value, args []value) {
	v := fr.get(call.Value)
	if call.Method == nil {
		fn = v
	} else {
		recv := v.(iface)
		if recv.t == nil {
			fr.i.ctx.runtimeError(fr, "runtime error: invalid memory address or nil pointer dereference (method "+call.Method.Name()+" on nil interface)")
		}
		if hf, ok := recv.v.(*hostObj); ok {
			fn = hf.method(call.Method.Name())
		} else if f := lookupMethod(fr.i, recv.t, call.Method); f == nil {
			panic(fmt.Sprintf("method set for dynamic type %v does not contain %s", recv.t, call.Method))
		} else {
			fn = f
		}
		args = append(args, recv.v)
	}
	for _, arg := range call.Args {
		args = append(args, fr.get(arg))
	}
	return
}

// hostObj is an object implemented by the engine whose methods are Go closures.
type hostObj struct {
	name    string
	methods map[string]func(fr *frame, args []value) value
}

func (h *hostObj) method(name string) value {
	m, ok := h.methods[name]
	if !ok {
		panic("hostObj " + h.name + ": no method " + name)
	}
	return &hostFunc{name: h.name + "." + name, fn: m}
}

func call(i *interpreter, caller *frame, callpos token.Pos, fn value, args []value) value {
	switch fn := fn.(type) {
	case *ssa.Function:
		if fn == nil {
			i.ctx.runtimeError(caller, "runtime error: invalid memory address or nil pointer dereference (call of nil func)")
		}
		return callSSA(i, caller, callpos, fn, args, nil)
	case *closure:
		return callSSA(i, caller, callpos, fn.Fn, args, fn.Env)
	case *ssa.Builtin:
		return caller.callBuiltin(callpos, fn, args)
	case *hostFunc:
		return fn.fn(caller, args)
	}
	panic(fmt.Sprintf("cannot call %T", fn))
}

const maxDepth = 400

func callSSA(i *interpreter, caller *frame, callpos token.Pos, fn *ssa.Function, args []value, env []value) value {
	fr := &frame{
		i:       i,
		caller:  caller,
		fn:      fn,
		callpos: callpos,
	}
	i.depth++
	defer func() { i.depth-- }()
	if i.depth > maxDepth {
		i.ctx.end("UNWIND", "call depth exceeds %d at %s", maxDepth, fn)
	}
	if fn.Parent() == nil {
		name := fn.String()
		if ext := i.stubs[name]; ext != nil {
			return ext(fr, args)
		}
		if ext := externals[name]; ext != nil {
			return ext(fr, args)
		}
		if o := fn.Origin(); o != nil {
			if ext := externals[o.String()]; ext != nil {
				return ext(fr, args)
			}
		}
		if ext := pkgStub(fn); ext != nil {
			return ext(fr, args)
		}
		if ext := genericAtomic(name); ext != nil {
			return ext(fr, args)
		}
		if strings.HasPrefix(fn.Name(), "nondet") || strings.HasPrefix(fn.Name(), "verif") {
			if h := harnessFn(fn.Name()); h != nil {
				return h(fr, args)
			}
		}
		if fn.Blocks == nil {
			i.ctx.end("UNSUPPORTED", "no code for function: %s", name)
		}
		if fn.Pkg != nil && fn.Name() != "init" {
			i.ensureInit(caller, fn.Pkg)
		}
		if fn == i.forceInit {
			i.forceInit = nil
		} else if fn.Name() == "init" && fn.Pkg != nil && caller != nil && caller.fn != nil && caller.fn.Name() == "init" && caller.fn.Pkg != fn.Pkg {
			// an importer's init calling ours: skipped; this package is initialised lazily, the
			// first time one of its globals is read or one of its functions is called
			return nil
		}
	}
	if fn.TypeParams().Len() > 0 && len(fn.TypeArgs()) == 0 {
		i.ctx.end("UNSUPPORTED", "uninstantiated generic function %s", fn)
	}
	i.funcsSeen[fn] = true
	if i.trace && i.depth < 8 {
		fmt.Fprintf(os.Stderr, "%*s-> %s\n", i.depth*2, "", fn.String())
	}

	fr.env = make(map[ssa.Value]value, 16)
	fr.block = fn.Blocks[0]
	fr.locals = make([]value, len(fn.Locals))
	for i, l := range fn.Locals {
		fr.locals[i] = zero(mustDeref(l.Type()))
		fr.env[l] = &fr.locals[i]
	}
	for i, p := range fn.Params {
		fr.env[p] = args[i]
	}
	for i, fv := range fn.FreeVars {
		fr.env[fv] = env[i]
	}
	for fr.block != nil {
		runFrame(fr)
	}
	return fr.result
}

func runFrame(fr *frame) {
	defer func() {
		if fr.block == nil {
			return // normal return
		}
		r := recover()
		if pe, ok := r.(pathEnd); ok {
			panic(pe)
		}
		if pa, ok := r.(pathAbort); ok {
			panic(pa)
		}
		if _, ok := r.(targetPanic); !ok {
			// interpreter-internal failure: annotate and propagate as an engine error
			if ee, ok := r.(engineError); ok {
				panic(ee)
			}
			buf := make([]byte, 8192)
			buf = buf[:runtime.Stack(buf, false)]
			panic(engineError{msg: fmt.Sprintf("%v", r), site: fr.site(), stack: strings.Join(fr.stack(), "\n  ") + "\n" + string(buf)})
		}
		fr.panicking = true
		fr.panic = r
		fr.runDefers()
		fr.block = fr.fn.Recover
	}()

	for {
		nonPhis := executePhis(fr)
		for _, instr := range nonPhis {
			if visitInstr(fr, instr) == kReturn {
				return
			}
		}
	}
}

type engineError struct {
	msg   string
	site  string
	stack string
}

func executePhis(fr *frame) []ssa.Instruction {
	firstNonPhi := -1
	for i, instr := range fr.block.Instrs {
		if _, ok := instr.(*ssa.Phi); !ok {
			firstNonPhi = i
			break
		}
	}
	nonPhis := fr.block.Instrs[firstNonPhi:]
	if firstNonPhi > 0 {
		if fr.prevBlock == nil {
			// phis already assigned by region merge
			return nonPhis
		}
		phis := fr.block.Instrs[:firstNonPhi]
		predIndex := slices.Index(fr.block.Preds, fr.prevBlock)
		fr.phitemps = fr.phitemps[:0]
		for _, phi := range phis {
			phi := phi.(*ssa.Phi)
			fr.phitemps = append(fr.phitemps, fr.get(phi.Edges[predIndex]))
		}
		for i, phi := range phis {
			fr.env[phi.(*ssa.Phi)] = fr.phitemps[i]
		}
	}
	return nonPhis
}

func doRecover(caller *frame) value {
	if caller != nil && !caller.panicking &&
		caller.caller != nil && caller.caller.panicking {
		caller.caller.panicking = false
		p := caller.caller.panic
		caller.caller.panic = nil
		switch p := p.(type) {
		case targetPanic:
			return p.v
		default:
			panic(fmt.Sprintf("unexpected panic type %T in target call to recover()", p))
		}
	}
	return iface{}
}

// --- region merging --------------------------------------------------------------------------
//
// A symbolic branch whose successors form a DAG of side-effect-free blocks (typical for
// `a && b || c` conditions and switch statements over a byte) is evaluated as a whole: the
// engine computes the condition under which control leaves the region through each exit edge,
// merges edges that enter the same block with the same (or ite-mergeable) phi values, and
// forks once over the distinct exits instead of once per comparison. Sound: only pure scalar
// instructions are evaluated speculatively.

func pureInstr(in ssa.Instruction) bool {
	switch in := in.(type) {
	case *ssa.BinOp:
		switch in.Op {
		case token.QUO, token.REM, token.SHL, token.SHR:
			return false // may panic
		}
		if _, ok := in.X.Type().Underlying().(*types.Basic); !ok {
			return false
		}
		if b := in.X.Type().Underlying().(*types.Basic); b.Info()&types.IsString != 0 {
			return false
		}
		return true
	case *ssa.UnOp:
		return in.Op == token.NOT || in.Op == token.SUB || in.Op == token.XOR
	case *ssa.Convert:
		bs, ok1 := in.X.Type().Underlying().(*types.Basic)
		bd, ok2 := in.Type().Underlying().(*types.Basic)
		return ok1 && ok2 && bs.Info()&types.IsNumeric != 0 && bd.Info()&types.IsNumeric != 0
	case *ssa.ChangeType:
		_, ok := in.Type().Underlying().(*types.Basic)
		return ok
	case *ssa.Phi, *ssa.If, *ssa.Jump, *ssa.DebugRef:
		return true
	}
	return false
}

type regionInfo struct {
	ok bool
}

var pureBlockCache = map[*ssa.BasicBlock]bool{}

func pureBlock(b *ssa.BasicBlock) bool {
	for _, in := range b.Instrs {
		if !pureInstr(in) {
			return false
		}
	}
	return true
}

type exitEdge struct {
	from, to *ssa.BasicBlock
	cond     *sym.Term
}

func (fr *frame) tryRegionMerge(ifInstr *ssa.If, cv *Sym) bool {
	i := fr.i
	c := i.ctx
	if i.p == nil {
		return false
	}
	start := fr.block
	// Discover region: blocks reachable from start's successors that are pure and whose every
	// predecessor is in the region (or is start). Processed in topological order.
	inRegion := map[*ssa.BasicBlock]bool{start: true}
	order := []*ssa.BasicBlock{}
	changed := true
	cand := map[*ssa.BasicBlock]bool{}
	for _, s := range start.Succs {
		cand[s] = true
	}
	for changed && len(order) < 24 {
		changed = false
		for _, b := range fr.fn.Blocks { // deterministic order
			if !cand[b] || inRegion[b] || b == start {
				continue
			}
			okPreds := true
			for _, p := range b.Preds {
				if !inRegion[p] {
					okPreds = false
					break
				}
			}
			if !okPreds || !i.p.isPure(b) {
				continue
			}
			inRegion[b] = true
			order = append(order, b)
			changed = true
			for _, s := range b.Succs {
				cand[s] = true
			}
			if len(order) >= 24 {
				break
			}
		}
	}
	if len(order) == 0 {
		return false
	}
	// order as discovered respects "all preds already in region" => topological, but map
	// iteration makes discovery order nondeterministic only among independent blocks; sort by
	// Index within dependency constraints is unnecessary: evaluation below only needs preds
	// evaluated first, which discovery guarantees.
	bcond := map[*ssa.BasicBlock]*sym.Term{start: c.B.True}
	edgeCond := map[[2]*ssa.BasicBlock]*sym.Term{}
	var exits []exitEdge
	addEdges := func(b *ssa.BasicBlock, cnd *sym.Term, last ssa.Instruction) bool {
		switch l := last.(type) {
		case *ssa.If:
			v := fr.get(l.Cond)
			var t *sym.Term
			switch v := v.(type) {
			case bool:
				t = c.B.BoolC(v)
			case *Sym:
				t = v.T
			default:
				return false
			}
			e0 := c.B.And(cnd, t)
			e1 := c.B.And(cnd, c.B.Not(t))
			for k, s := range b.Succs {
				ec := e0
				if k == 1 {
					ec = e1
				}
				key := [2]*ssa.BasicBlock{b, s}
				if old, ok := edgeCond[key]; ok {
					ec = c.B.Or(old, ec)
				}
				edgeCond[key] = ec
			}
		case *ssa.Jump:
			edgeCond[[2]*ssa.BasicBlock{b, b.Succs[0]}] = cnd
		default:
			return false
		}
		return true
	}
	if !addEdges(start, c.B.True, ifInstr) {
		return false
	}
	saved := map[ssa.Value]value{}
	restore := func() {
		for k, v := range saved {
			if v == nil {
				delete(fr.env, k)
			} else {
				fr.env[k] = v
			}
		}
	}
	for _, b := range order {
		// block condition = OR of incoming edge conditions
		var ins []*sym.Term
		for _, p := range b.Preds {
			if ec, ok := edgeCond[[2]*ssa.BasicBlock{p, b}]; ok {
				ins = append(ins, ec)
			}
		}
		bc := c.B.Or(ins...)
		bcond[b] = bc
		// phis
		for _, in := range b.Instrs {
			phi, ok := in.(*ssa.Phi)
			if !ok {
				break
			}
			var acc value
			first := true
			for pi, p := range b.Preds {
				ec, ok := edgeCond[[2]*ssa.BasicBlock{p, b}]
				if !ok || ec.IsFalse() {
					continue
				}
				v := fr.get(phi.Edges[pi])
				if first {
					acc = v
					first = false
					continue
				}
				m, ok2 := c.iteValue(ec, v, acc)
				if !ok2 {
					restore()
					return false
				}
				acc = m
			}
			if first {
				acc = zero(phi.Type())
			}
			if old, ok := fr.env[phi]; ok {
				saved[phi] = old
			} else {
				saved[phi] = nil
			}
			fr.env[phi] = acc
		}
		var last ssa.Instruction
		for _, in := range b.Instrs {
			last = in
			switch in := in.(type) {
			case *ssa.Phi, *ssa.DebugRef, *ssa.If, *ssa.Jump:
				continue
			case *ssa.BinOp:
				if _, ok := fr.env[in]; ok {
					saved[in] = fr.env[in]
				} else {
					saved[in] = nil
				}
				fr.env[in] = fr.binop(in.Op, in.X.Type(), fr.get(in.X), fr.get(in.Y))
			case *ssa.UnOp:
				if _, ok := fr.env[in]; ok {
					saved[in] = fr.env[in]
				} else {
					saved[in] = nil
				}
				fr.env[in] = fr.unop(in, fr.get(in.X))
			case *ssa.Convert:
				if _, ok := fr.env[in]; ok {
					saved[in] = fr.env[in]
				} else {
					saved[in] = nil
				}
				fr.env[in] = fr.conv(in.Type(), in.X.Type(), fr.get(in.X))
			case *ssa.ChangeType:
				if _, ok := fr.env[in]; ok {
					saved[in] = fr.env[in]
				} else {
					saved[in] = nil
				}
				fr.env[in] = fr.get(in.X)
			}
		}
		if !addEdges(b, bc, last) {
			restore()
			return false
		}
	}
	// exits: edges from region blocks to non-region blocks
	for key, ec := range edgeCond {
		if !inRegion[key[1]] || key[1] == start {
			if !ec.IsFalse() {
				exits = append(exits, exitEdge{from: key[0], to: key[1], cond: ec})
			}
		}
	}
	// deterministic order
	slices.SortFunc(exits, func(a, b exitEdge) int {
		if a.to.Index != b.to.Index {
			return a.to.Index - b.to.Index
		}
		return a.from.Index - b.from.Index
	})
	// group by target when phi values can be merged
	type group struct {
		to    *ssa.BasicBlock
		cond  *sym.Term
		phis  []value
		edges []exitEdge
	}
	var groups []*group
	for _, e := range exits {
		// phi values for this edge
		var pv []value
		pi := slices.Index(e.to.Preds, e.from)
		for _, in := range e.to.Instrs {
			phi, ok := in.(*ssa.Phi)
			if !ok {
				break
			}
			pv = append(pv, fr.get(phi.Edges[pi]))
		}
		merged := false
		for _, g := range groups {
			if g.to != e.to {
				continue
			}
			np := make([]value, len(pv))
			ok := true
			for k := range pv {
				m, ok2 := c.iteValue(e.cond, pv[k], g.phis[k])
				if !ok2 {
					ok = false
					break
				}
				np[k] = m
			}
			if ok {
				g.phis = np
				g.cond = c.B.Or(g.cond, e.cond)
				g.edges = append(g.edges, e)
				merged = true
				break
			}
		}
		if !merged {
			groups = append(groups, &group{to: e.to, cond: e.cond, phis: pv, edges: []exitEdge{e}})
		}
	}
	if len(groups) == 0 {
		restore()
		return false
	}
	conds := make([]*sym.Term, len(groups))
	for k, g := range groups {
		conds[k] = g.cond
	}
	d := c.Choose(conds)
	g := groups[d]
	// assign phis of the target and jump, skipping executePhis
	k := 0
	for _, in := range g.to.Instrs {
		phi, ok := in.(*ssa.Phi)
		if !ok {
			break
		}
		fr.env[phi] = g.phis[k]
		k++
	}
	fr.prevBlock = nil
	fr.block = g.to
	return true
}

func (p *Program) isPure(b *ssa.BasicBlock) bool {
	return pureBlock(b)
}

// iteValue merges two values under a condition when both are scalars (or identical).
func (c *Ctx) iteValue(cond *sym.Term, a, b value) (value, bool) {
	ka, kb := kindOfValue(a), kindOfValue(b)
	if ka != types.Invalid && ka == kb {
		if !isSym(a) && !isSym(b) && a == b {
			return a, true
		}
		return c.mkval(c.B.Ite(cond, c.termOf(a), c.termOf(b)), ka), true
	}
	// non-scalars: only identical references merge
	switch av := a.(type) {
	case string:
		if bv, ok := b.(string); ok && av == bv {
			return a, true
		}
	case *value:
		if bv, ok := b.(*value); ok && av == bv {
			return a, true
		}
	case *ssa.Function:
		if bv, ok := b.(*ssa.Function); ok && av == bv {
			return a, true
		}
	case *closure:
		if bv, ok := b.(*closure); ok && av == bv {
			return a, true
		}
	case nil:
		if b == nil {
			return nil, true
		}
	}
	return nil, false
}
