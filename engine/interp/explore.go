package interp

import (
	"fmt"
	"go/token"
	"go/types"
	"os"
	"path/filepath"
	"sort"
	"strings"
	"sync"
	"time"

	"golang.org/x/tools/go/packages"
	"golang.org/x/tools/go/ssa"
	"golang.org/x/tools/go/ssa/ssautil"

	"symx/smt"
	"symx/sym"
)

// LoadConfig describes what to load.
type LoadConfig struct {
	Dir      string            // module root of the code under test (/repo)
	Patterns []string          // package patterns, e.g. ./internal/lexer
	Overlay  map[string][]byte // virtual files (harnesses)
	Tags     []string
}

func Load(cfg LoadConfig) (*Program, []*ssa.Package, error) {
	pcfg := &packages.Config{
		Mode:    packages.LoadAllSyntax,
		Dir:     cfg.Dir,
		Overlay: cfg.Overlay,
		Env:     append(os.Environ(), "GOFLAGS=-mod=mod", "GOPROXY=off"),
	}
	if len(cfg.Tags) > 0 {
		pcfg.BuildFlags = []string{"-tags=" + strings.Join(cfg.Tags, ",")}
	}
	pkgs, err := packages.Load(pcfg, cfg.Patterns...)
	if err != nil {
		return nil, nil, err
	}
	var errs []string
	packages.Visit(pkgs, nil, func(p *packages.Package) {
		for _, e := range p.Errors {
			errs = append(errs, e.Error())
		}
	})
	if len(errs) > 0 {
		if len(errs) > 10 {
			errs = errs[:10]
		}
		return nil, nil, fmt.Errorf("load errors:\n%s", strings.Join(errs, "\n"))
	}
	prog, spkgs := ssautil.AllPackages(pkgs, ssa.InstantiateGenerics)
	prog.Build()
	p := &Program{Prog: prog, StdPkgs: map[*ssa.Package]bool{}}
	rt := prog.ImportedPackage("runtime")
	if rt == nil {
		return nil, nil, fmt.Errorf("runtime package not loaded")
	}
	p.runtimeErrorString = rt.Type("errorString").Object().Type()
	for _, sp := range prog.AllPackages() {
		path := sp.Pkg.Path()
		first := path
		if i := strings.Index(path, "/"); i >= 0 {
			first = path[:i]
		}
		if !strings.Contains(first, ".") {
			p.StdPkgs[sp] = true // standard library: globals persist across paths
		}
	}
	return p, spkgs, nil
}

type RunConfig struct {
	Pkg        *ssa.Package
	Entry      string
	Mode       EncMode
	Workers    int
	MaxPaths   int
	Timeout    time.Duration
	SolverMs   int
	WorkDir    string
	MaxDec     int
	MaxSteps   int64
	Trace      bool
	ViolPerKey int
	Seed       int64
}

type RunResult struct {
	Entry       string
	Paths       int
	Ends        map[string]int
	EndSamples  map[string][]string
	Violations  []*Violation
	Witnesses   []*Violation // inputs of paths that ended BLOCKED / UNWIND / BUDGET
	ViolCount   map[string]int
	Reached     map[string]int
	Funcs       map[string]bool
	Stats       smt.Stats
	Obligations int64
	Discharged  int64
	Trivial     int64
	Forks       int64
	Inconcl     int64
	Asserts     int64
	Samples     []string
	Remaining   int // unexplored prefixes when stopped (budget/timeout)
	Wall        time.Duration
	EngineErrs  []string
	OpaquePaths int
	Terms       int
}

func (r *RunResult) Complete() bool {
	if r.Remaining > 0 || len(r.EngineErrs) > 0 {
		return false
	}
	for k, n := range r.Ends {
		switch k {
		case "ok", "ASSUME", "PANIC", "INFEASIBLE", "BLOCKED-OK":
		default:
			if n > 0 {
				return false
			}
		}
	}
	return true
}

type workQueue struct {
	mu     sync.Mutex
	cond   *sync.Cond
	items  [][]int
	active int
	done   bool
}

func (q *workQueue) push(ps [][]int) {
	q.mu.Lock()
	q.items = append(q.items, ps...)
	q.mu.Unlock()
	q.cond.Broadcast()
}

func (q *workQueue) pop() ([]int, bool) {
	q.mu.Lock()
	defer q.mu.Unlock()
	for {
		if q.done {
			return nil, false
		}
		if n := len(q.items); n > 0 {
			it := q.items[n-1] // depth-first
			q.items = q.items[:n-1]
			q.active++
			return it, true
		}
		if q.active == 0 {
			q.done = true
			q.cond.Broadcast()
			return nil, false
		}
		q.cond.Wait()
	}
}

func (q *workQueue) finish() {
	q.mu.Lock()
	q.active--
	q.mu.Unlock()
	q.cond.Broadcast()
}

func (q *workQueue) stop() int {
	q.mu.Lock()
	defer q.mu.Unlock()
	q.done = true
	q.cond.Broadcast()
	return len(q.items) + q.active
}

func (p *Program) newInterp(ctx *Ctx) *interpreter {
	return &interpreter{
		p: p, prog: p.Prog, ctx: ctx,
		stdGlobals:         map[*ssa.Global]*value{},
		stdInited:          map[*ssa.Package]bool{},
		runtimeErrorString: p.runtimeErrorString,
		funcsSeen:          map[*ssa.Function]bool{},
	}
}

func (i *interpreter) resetPath() {
	i.globals = map[*ssa.Global]*value{}
	i.inited = map[*ssa.Package]bool{}
	i.pools = map[*value][]value{}
	i.regexes = map[*value]*regexHandle{}
	i.protoSeq = 0
	i.manualTimers = false
	i.jsonStreams = nil
	i.jsonCodecs = nil
	i.pendingTimers = nil
	i.pendingTickers = nil
	i.protoMsgs = map[string]iface{}
	i.depth = 0
	i.chanSeq = 0
	i.nowHook = nil
	i.lastNow = nil
}

// runPath executes one path and classifies its end.
func (i *interpreter) runPath(entry *ssa.Function, prefix []int) (res PathResult) {
	c := i.ctx
	i.resetPath()
	c.beginPath(prefix)
	i.initSched()
	defer i.killGoroutines()
	defer func() {
		res.Decisions = len(c.trace)
		res.Steps = c.steps
		for k := range c.reached {
			res.Reached = append(res.Reached, k)
		}
		r := recover()
		if r == nil {
			return
		}
		switch r := r.(type) {
		case pathEnd:
			res.End, res.Msg = r.kind, r.msg
			if r.kind == "BLOCKED" || r.kind == "UNWIND" || r.kind == "BUDGET" {
				// a witness input for the path that deadlocks / does not terminate within the bound
				if m, sr := c.finalModel(nil); sr == smt.Sat {
					kind := "blocked"
					if r.kind != "BLOCKED" {
						kind = "nonterm"
					}
					v := &Violation{Site: r.kind, Msg: r.msg, Kind: kind, Model: m, Nondets: append([]Nondet{}, c.nondets...)}
					for _, n := range c.nondets {
						v.Values = append(v.Values, renderModelValue(n, m[n.Term.ID]))
					}
					res.Witness = v
				}
			}
		case targetPanic:
			res.End = "PANIC"
			res.Msg = toString(r.v)
			res.Violation = i.makeViolation(r)
		case engineError:
			res.End = "ENGINE-ERROR"
			res.Msg = r.msg + " at " + r.site + "\n" + r.stack
		default:
			res.End = "ENGINE-ERROR"
			res.Msg = fmt.Sprintf("%v", r)
		}
	}()
	callSSA(i, nil, token.NoPos, entry, nil, nil)
	res.End = "ok"
	return
}

func panicMessage(v value) string {
	if it, ok := v.(iface); ok {
		switch x := it.v.(type) {
		case string:
			return x
		case *value:
			if x != nil {
				if st, ok := (*x).(structure); ok && len(st) > 0 {
					if s, ok := st[0].(string); ok {
						return s
					}
				}
			}
		}
	}
	return toString(v)
}

func (i *interpreter) makeViolation(tp targetPanic) *Violation {
	c := i.ctx
	msg := panicMessage(tp.v)
	v := &Violation{Site: tp.site, Msg: msg, Kind: "panic"}
	if strings.HasPrefix(msg, assertMarker) {
		v.Kind = "assert"
		v.Msg = strings.TrimPrefix(msg, assertMarker)
	}
	v.Decisions = append([]int{}, c.trace...)
	// ParseFloat stub: first look for a model whose ParseFloat arguments all come from the
	// table of strings whose real results are asserted as facts (such a model agrees with the
	// real function by construction); only if there is none, refine by CEGAR.
	var model smt.Model
	ok := false
	var extraTerms []*sym.Term
	for _, pc := range c.pfCalls {
		for _, b := range pc.bytes {
			if s, isS := b.(*Sym); isS {
				extraTerms = append(extraTerms, s.T)
			}
		}
	}
	allShort := true
	if len(c.pfCalls) > 0 {
		var restrict []*sym.Term
		for _, pc := range c.pfCalls {
			var alts []*sym.Term
			for _, cand := range pfCandidates(len(pc.bytes)) {
				c.pfFact(cand)
				alts = append(alts, c.bytesEq(pc.bytes, strBytes(cand)))
			}
			if len(pc.bytes) <= 2 {
				// exact regime: only accepted strings need to come from the (complete) candidate list
				restrict = append(restrict, c.B.Implies(pc.ok, c.B.Or(alts...)))
			} else {
				allShort = false
				restrict = append(restrict, c.B.Or(alts...))
			}
		}
		c.flushPC()
		var want []*sym.Term
		for _, n := range c.nondets {
			want = append(want, n.Term)
		}
		if len(want) > 0 {
			r, m := c.S.Check(restrict, want)
			if r == smt.Sat {
				model, ok = m, true
			} else if r == smt.Unsat && allShort {
				// every ParseFloat argument is at most two bytes long, where the stub is exact:
				// the candidate is refuted by the real function's behaviour
				c.Refuted++
				return nil
			}
		}
	}
	for round := 0; !ok && round < 30; round++ {
		var r smt.Result
		model, r = c.finalModel(extraTerms)
		ok = r == smt.Sat
		if r == smt.Unsat && len(c.pfCalls) > 0 {
			// the facts about the real ParseFloat refute the candidate: not a violation
			c.Refuted++
			return nil
		}
		if !ok {
			break
		}
		newFact := false
		for _, pc := range c.pfCalls {
			bs := make([]byte, len(pc.bytes))
			for k, b := range pc.bytes {
				switch b := b.(type) {
				case byte:
					bs[k] = b
				case *Sym:
					if b.T.IsConst() {
						bs[k] = byte(b.T.Val)
					} else if c.Mode == Math {
						bs[k] = byte(model[b.T.ID].Int.Int64())
					} else {
						bs[k] = byte(model[b.T.ID].Bits)
					}
				}
			}
			s := string(bs)
			if !c.facts["pf:"+s] {
				c.pfFact(s)
				c.PFLearned[len(s)] = append(c.PFLearned[len(s)], s)
				newFact = true
			}
		}
		if !newFact {
			break
		}
		ok = false
	}
	if !ok {
		v.Unsure = true
		c.Inconcl++
		if os.Getenv("SYMX_DEBUG") != "" {
			fmt.Fprintf(os.Stderr, "[symx] unsure violation at %s: lastError=%s\n", v.Site, c.S.LastError)
			fmt.Fprintf(os.Stderr, "%s\n", c.S.Standalone(nil, nil))
		}
		return v
	}
	v.Model = model
	v.Nondets = append([]Nondet{}, c.nondets...)
	for _, n := range c.nondets {
		v.Values = append(v.Values, renderModelValue(n, model[n.Term.ID]))
	}
	return v
}

func schedCount(v *Violation) int {
	n := 0
	for _, nd := range v.Nondets {
		if nd.Kind == "sched" {
			n++
		}
	}
	return n
}

func (p *Program) Run(rc RunConfig) *RunResult {
	entry := rc.Pkg.Func(rc.Entry)
	res := &RunResult{Entry: rc.Entry, Ends: map[string]int{}, EndSamples: map[string][]string{}, ViolCount: map[string]int{}, Reached: map[string]int{}, Funcs: map[string]bool{}}
	if entry == nil {
		res.EngineErrs = append(res.EngineErrs, "entry function not found: "+rc.Entry)
		return res
	}
	if rc.Workers <= 0 {
		rc.Workers = 1
	}
	if rc.ViolPerKey <= 0 {
		rc.ViolPerKey = 4
	}
	if rc.SolverMs <= 0 {
		rc.SolverMs = 10000
	}
	t0 := time.Now()
	q := &workQueue{}
	q.cond = sync.NewCond(&q.mu)
	q.items = [][]int{{}}
	var mu sync.Mutex
	var wg sync.WaitGroup
	deadline := time.Time{}
	if rc.Timeout > 0 {
		deadline = t0.Add(rc.Timeout)
	}
	stopped := false
	smt.ResetEscalationBudget()
	var solvers []*smt.Solver
	aborted := false
	if !deadline.IsZero() {
		// watchdog: a worker stuck in a long solver call must not outlive the budget by much
		go func() {
			time.Sleep(time.Until(deadline) + 20*time.Second)
			mu.Lock()
			aborted = true
			ss := append([]*smt.Solver{}, solvers...)
			mu.Unlock()
			q.stop()
			for _, s := range ss {
				s.Kill()
			}
		}()
	}
	for w := 0; w < rc.Workers; w++ {
		wg.Add(1)
		go func(w int) {
			defer wg.Done()
			b := sym.NewBuilder()
			s, err := smt.New(rc.SolverMs, filepath.Join(rc.WorkDir, "esc"))
			if err != nil {
				mu.Lock()
				res.EngineErrs = append(res.EngineErrs, "solver start: "+err.Error())
				mu.Unlock()
				return
			}
			defer s.Close()
			mu.Lock()
			solvers = append(solvers, s)
			mu.Unlock()
			ctx := NewCtx(b, s, rc.Mode)
			if rc.MaxDec > 0 {
				ctx.MaxDecisions = rc.MaxDec
			}
			if rc.MaxSteps > 0 {
				ctx.MaxSteps = rc.MaxSteps
			}
			in := p.newInterp(ctx)
			in.trace = rc.Trace
			for {
				prefix, ok := q.pop()
				if !ok {
					break
				}
				pr := in.runPath(entry, prefix)
				q.push(ctx.pending)
				mu.Lock()
				if aborted {
					// the watchdog killed the solvers: this path did not finish
					res.Remaining++
					mu.Unlock()
					q.finish()
					break
				}
				res.Paths++
				res.Ends[pr.End]++
				if pr.End != "ok" && pr.End != "PANIC" && len(res.EndSamples[pr.End]) < 5 {
					res.EndSamples[pr.End] = append(res.EndSamples[pr.End], pr.Msg)
				}
				for _, l := range pr.Reached {
					res.Reached[l]++
				}
				if ctx.opaqueUsed {
					res.OpaquePaths++
				}
				if pr.End == "ENGINE-ERROR" {
					if len(res.EngineErrs) < 5 {
						res.EngineErrs = append(res.EngineErrs, pr.Msg)
					}
				}
				if w := pr.Witness; w != nil {
					key := w.Kind + "|" + w.Site
					res.ViolCount[key]++
					if res.ViolCount[key] <= 1 {
						res.Witnesses = append(res.Witnesses, w)
					}
				}
				if v := pr.Violation; v != nil {
					key := v.Kind + "|" + v.Site + "|" + v.Msg
					res.ViolCount[key]++
					if res.ViolCount[key] <= rc.ViolPerKey {
						res.Violations = append(res.Violations, v)
					} else {
						// keep the candidates that depend on the fewest schedule choices: they are
						// the ones a native run can reproduce
						worst, wn := -1, schedCount(v)
						for k, o := range res.Violations {
							if o.Kind+"|"+o.Site+"|"+o.Msg == key && !o.Unsure {
								if n := schedCount(o); n > wn {
									worst, wn = k, n
								}
							}
						}
						if worst >= 0 && !v.Unsure {
							res.Violations[worst] = v
						}
					}
				}
				over := (rc.MaxPaths > 0 && res.Paths >= rc.MaxPaths) || (!deadline.IsZero() && time.Now().After(deadline))
				if over && !stopped {
					stopped = true
					mu.Unlock()
					q.finish()
					rem := q.stop()
					mu.Lock()
					res.Remaining = rem
					mu.Unlock()
					break
				}
				mu.Unlock()
				q.finish()
			}
			mu.Lock()
			res.Stats.Add(&s.Stats)
			res.Obligations += ctx.Obligations
			res.Discharged += ctx.Discharged
			res.Trivial += ctx.Trivial
			res.Forks += ctx.Forks
			res.Inconcl += ctx.Inconcl
			res.Asserts += ctx.Asserts
			res.Terms += b.NumTerms()
			if len(res.Samples) < 12 {
				res.Samples = append(res.Samples, ctx.Samples...)
			}
			for f := range in.funcsSeen {
				res.Funcs[funcLabel(f)] = true
			}
			mu.Unlock()
		}(w)
	}
	wg.Wait()
	res.Wall = time.Since(t0)
	sort.Slice(res.Violations, func(a, b int) bool {
		return res.Violations[a].Site+res.Violations[a].Msg < res.Violations[b].Site+res.Violations[b].Msg
	})
	return res
}

func funcLabel(f *ssa.Function) string {
	pos := f.Prog.Fset.Position(f.Pos())
	file := pos.Filename
	if i := strings.Index(file, "/repo/"); i >= 0 {
		file = file[i+6:]
	} else if i := strings.Index(file, "/src/"); i >= 0 {
		file = "std:" + file[i+5:]
	}
	return fmt.Sprintf("%s (%s:%d)", f.String(), file, pos.Line)
}

var _ = types.Typ
