package interp

import (
	"go/token"
	"go/types"
	"regexp"
	"strings"

	"golang.org/x/tools/go/ssa"

	"symx/sym"
)

// Package-level stubs: every function of these packages is replaced by a no-op returning the
// zero value of its result type (DESIGN §2.5: logging and statistics reporting are not the
// subject of any property).
var noopPkgs = map[string]bool{
	"github.com/sirupsen/logrus": true,
	"log":                        true,
}

func zeroResult(fn *ssa.Function) value {
	res := fn.Signature.Results()
	switch res.Len() {
	case 0:
		return nil
	case 1:
		return zero(res.At(0).Type())
	}
	return zero(res)
}

func pkgStub(fn *ssa.Function) externalFn {
	if fn.Pkg == nil {
		// methods of instantiated generics etc. have no Pkg: use the object's package
		if o := fn.Object(); o != nil && o.Pkg() != nil && noopPkgs[o.Pkg().Path()] {
			return func(fr *frame, a []value) value { return zeroResult(fn) }
		}
		return nil
	}
	if noopPkgs[fn.Pkg.Pkg.Path()] {
		return func(fr *frame, a []value) value { return zeroResult(fn) }
	}
	return nil
}

func init() {
	for k, v := range map[string]externalFn{
		"(*golang.org/x/time/rate.Limiter).Allow": func(fr *frame, a []value) value { return false },
		"context.Background":                      extCtxBackground,
		"internal/reflectlite.TypeOf":             extDummyType,
		"reflect.TypeOf":                          extDummyType,
		"context.TODO":                            extCtxBackground,

		// --- time model (DESIGN §2.5): a Time is {wall: 1 if set, ext: unix nanoseconds, loc: nil}
		"time.Now":               extTimeNow,
		"time.Unix":              extTimeUnix,
		"(time.Time).UnixNano":   func(fr *frame, a []value) value { return timeNanos(a[0]) },
		"(time.Time).Unix":       extTimeUnixSec,
		"(time.Time).IsZero":     func(fr *frame, a []value) value { return fr.i.ctx.scalarNot(timeSet(fr, a[0])) },
		"(time.Time).Add":        extTimeAdd,
		"(time.Time).Sub":        extTimeSub,
		"(time.Time).Before":     extTimeCmp("<"),
		"(time.Time).After":      extTimeCmp(">"),
		"(time.Time).Equal":      extTimeCmp("="),
		"(time.Time).Truncate":   extTimeTruncate,
		"time.Since":             func(fr *frame, a []value) value { return extTimeSub(fr, []value{extTimeNow(fr, nil), a[0]}) },
		"time.Until":             func(fr *frame, a []value) value { return extTimeSub(fr, []value{a[0], extTimeNow(fr, nil)}) },
		"(time.Duration).String": func(fr *frame, a []value) value { return fr.opaqueString("dur", a[0]) },
		"time.Sleep":             nop,
	} {
		externals[k] = v
	}
}

func (c *Ctx) scalarNot(v value) value {
	if b, ok := v.(bool); ok {
		return !b
	}
	return c.mkval(c.B.Not(v.(*Sym).T), types.Bool)
}

// extDummyType returns an opaque reflect-like type object; only used by package initialisers
// (errors.errorType and the like). Any method returns the object itself.
func extDummyType(fr *frame, a []value) value {
	var self iface
	h := &hostObj{name: "dummyType", methods: map[string]func(fr *frame, args []value) value{}}
	self = iface{t: types.Typ[types.Int], v: h}
	for _, m := range []string{"Elem", "Key"} {
		h.methods[m] = func(fr *frame, args []value) value { return self }
	}
	h.methods["String"] = func(fr *frame, args []value) value { return "dummyType" }
	h.methods["Kind"] = func(fr *frame, args []value) value { return uint(0) }
	h.methods["Comparable"] = func(fr *frame, args []value) value { return true }
	return self
}

// --- context -----------------------------------------------------------------------------

func extCtxBackground(fr *frame, a []value) value {
	i := fr.i
	pkg := i.prog.ImportedPackage("context")
	t := pkg.Type("backgroundCtx").Type()
	return iface{t: t, v: zero(t)}
}

// --- time --------------------------------------------------------------------------------

func mkTime(set value, nanos value) value {
	return structure{set, nanos, (*value)(nil)}
}

func timeNanos(t value) value { return t.(structure)[1] }

func timeSet(fr *frame, t value) value {
	w := t.(structure)[0]
	if u, ok := w.(uint64); ok {
		return u != 0
	}
	c := fr.i.ctx
	s := w.(*Sym)
	if c.Mode == Math {
		return c.mkval(c.B.Not(c.B.Eq(s.T, c.B.IntC64(0))), types.Bool)
	}
	return c.mkval(c.B.Not(c.B.Eq(s.T, c.B.BVC(0, 64))), types.Bool)
}

// time.Now: a harness-controlled clock. The harness sets the package-level variable
// verifNow (int64 unix nanoseconds, possibly symbolic) in its own package; if it is absent a
// fresh non-decreasing symbolic instant is produced.
func extTimeNow(fr *frame, a []value) value {
	i := fr.i
	c := i.ctx
	if i.nowHook != nil {
		return mkTime(uint64(1), *i.nowHook)
	}
	s := c.Fresh("now", types.Int64)
	lo, hi := int64(946684800e9), int64(4102444800e9) // 2000-01-01 .. 2100-01-01
	if c.Mode == Math {
		c.Assume(c.B.App("and", sym.Bool, c.B.App("<=", sym.Bool, c.B.IntC64(lo), s.T), c.B.App("<=", sym.Bool, s.T, c.B.IntC64(hi))))
	} else {
		c.Assume(c.B.And(c.B.BVCmp("bvsle", c.B.BVC(uint64(lo), 64), s.T), c.B.BVCmp("bvsle", s.T, c.B.BVC(uint64(hi), 64))))
	}
	if i.lastNow != nil {
		c.Assume(c.termOf(c.symBinopAny(fr, "<=", i.lastNow, s)))
	}
	i.lastNow = s
	return mkTime(uint64(1), s)
}

func (c *Ctx) symBinopAny(fr *frame, op string, x, y value) value {
	tx, ty := c.termOf(x), c.termOf(y)
	if c.Mode == Math {
		return c.mkval(c.B.IntCmp(op, tx, ty), types.Bool)
	}
	switch op {
	case "<=":
		return c.mkval(c.B.BVCmp("bvsle", tx, ty), types.Bool)
	case "<":
		return c.mkval(c.B.BVCmp("bvslt", tx, ty), types.Bool)
	}
	panic("symBinopAny " + op)
}

func (fr *frame) arith(op string, x, y value) value {
	// int64 arithmetic on possibly symbolic values through the ordinary binop path
	tok := map[string]int{"+": 0, "-": 1, "*": 2}[op]
	return fr.binop([]tokenT{tokADD, tokSUB, tokMUL}[tok], types.Typ[types.Int64], x, y)
}

func extTimeUnix(fr *frame, a []value) value {
	sec, nsec := a[0], a[1]
	n := fr.arith("+", fr.arith("*", sec, int64(1e9)), nsec)
	return mkTime(uint64(1), n)
}

func extTimeUnixSec(fr *frame, a []value) value {
	n := timeNanos(a[0])
	// floor division by 1e9 (Unix() of pre-1970 instants rounds toward -inf); instants are >= 0 here
	return fr.binop(tokQUO, types.Typ[types.Int64], n, int64(1e9))
}

func extTimeAdd(fr *frame, a []value) value {
	t := a[0].(structure)
	return mkTime(t[0], fr.arith("+", t[1], a[1]))
}

func extTimeSub(fr *frame, a []value) value {
	return fr.arith("-", timeNanos(a[0]), timeNanos(a[1]))
}

func extTimeCmp(op string) externalFn {
	return func(fr *frame, a []value) value {
		x, y := timeNanos(a[0]), timeNanos(a[1])
		switch op {
		case "<":
			return fr.binop(tokLSS, types.Typ[types.Int64], x, y)
		case ">":
			return fr.binop(tokGTR, types.Typ[types.Int64], x, y)
		}
		return fr.binop(tokEQL, types.Typ[types.Int64], x, y)
	}
}

// Truncate(d) = t - ((t + Z) mod d), Z = nanoseconds from Go's zero time to the Unix epoch.
// Exact only in math mode (the 64-bit sum t+Z overflows); machine mode ends the path.
func extTimeTruncate(fr *frame, a []value) value {
	c := fr.i.ctx
	t := a[0].(structure)
	d := a[1]
	if c.Mode != Math {
		c.end("UNSUPPORTED", "time.Truncate is modelled in math mode only")
	}
	const zsec = 62135596800
	z := c.B.IntMul(c.B.IntC64(zsec), c.B.IntC64(1e9))
	tn, dn := c.termOf(t[1]), c.termOf(d)
	pos := c.B.IntCmp(">", dn, c.B.IntC64(0))
	if pos.IsFalse() {
		return a[0]
	}
	if !pos.IsTrue() && !c.Branch(pos) {
		return a[0]
	}
	m := c.B.IntModE(c.B.IntAdd(tn, z), dn)
	return mkTime(t[0], c.mkval(c.B.IntSub(tn, m), types.Int64))
}

type tokenT = token.Token

const (
	tokADD = token.ADD
	tokSUB = token.SUB
	tokMUL = token.MUL
	tokQUO = token.QUO
	tokLSS = token.LSS
	tokGTR = token.GTR
	tokEQL = token.EQL
)

var _ = strings.HasPrefix

// --- regexp (contract stub, DESIGN §2.5) --------------------------------------------------
// MustCompile returns an opaque handle; MatchString is an uninterpreted predicate of
// (handle, string): equal strings give equal answers on one path.

type regexHandle struct {
	pattern value
	memo    map[string]value
}

func init() {
	externals["regexp.MustCompile"] = func(fr *frame, a []value) value {
		h := &hostObj{name: "regexp", methods: map[string]func(fr *frame, args []value) value{}}
		var cell value = structure{h}
		fr.i.regexes[&cell] = &regexHandle{pattern: a[0], memo: map[string]value{}}
		return &cell
	}
	externals["regexp.Compile"] = func(fr *frame, a []value) value {
		return tuple{externals["regexp.MustCompile"](fr, a), iface{}}
	}
	// Replace*/Find* on concrete subjects with a concrete pattern: the real regexp is run by the
	// engine natively; otherwise UNSUPPORTED (no harness needs it symbolically).
	reNative := func(fr *frame, a []value) (*regexp.Regexp, bool) {
		h := fr.i.regexes[a[0].(*value)]
		if h == nil {
			return nil, false
		}
		ps, ok := h.pattern.(string)
		if !ok {
			return nil, false
		}
		re, err := regexp.Compile(ps)
		return re, err == nil
	}
	concBytes := func(v value) ([]byte, bool) {
		if v == nil {
			return nil, true
		}
		var bs []value
		if isString(v) {
			bs = strBytes(v)
		} else {
			bs, _ = v.([]value)
		}
		out := make([]byte, len(bs))
		for k, b := range bs {
			cb, ok := b.(byte)
			if !ok {
				return nil, false
			}
			out[k] = cb
		}
		return out, true
	}
	externals["(*regexp.Regexp).ReplaceAllLiteral"] = func(fr *frame, a []value) value {
		re, ok := reNative(fr, a)
		src, ok1 := concBytes(a[1])
		repl, ok2 := concBytes(a[2])
		if !ok || !ok1 || !ok2 {
			// symbolic subject: contract stub - some byte string (here: the input unchanged)
			fr.i.ctx.opaqueUsed = true
			return a[1]
		}
		return strBytes(string(re.ReplaceAllLiteral(src, repl)))
	}
	externals["(*regexp.Regexp).ReplaceAllString"] = func(fr *frame, a []value) value {
		re, ok := reNative(fr, a)
		src, ok1 := concBytes(a[1])
		repl, ok2 := concBytes(a[2])
		if !ok || !ok1 || !ok2 {
			fr.i.ctx.opaqueUsed = true
			return a[1]
		}
		return re.ReplaceAllString(string(src), string(repl))
	}
	externals["(*regexp.Regexp).FindStringSubmatch"] = func(fr *frame, a []value) value {
		re, ok := reNative(fr, a)
		src, ok1 := concBytes(a[1])
		if !ok || !ok1 {
			fr.i.ctx.end("UNSUPPORTED", "regexp.FindStringSubmatch on a symbolic subject or pattern")
		}
		m := re.FindStringSubmatch(string(src))
		if m == nil {
			return []value(nil)
		}
		out := make([]value, len(m))
		for k := range m {
			out[k] = m[k]
		}
		return out
	}
	externals["(*regexp.Regexp).SubexpIndex"] = func(fr *frame, a []value) value {
		re, ok := reNative(fr, a)
		name, ok1 := a[1].(string)
		if !ok || !ok1 {
			fr.i.ctx.end("UNSUPPORTED", "regexp.SubexpIndex on a symbolic pattern")
		}
		return re.SubexpIndex(name)
	}
	externals["(*regexp.Regexp).SubexpNames"] = func(fr *frame, a []value) value {
		re, ok := reNative(fr, a)
		if !ok {
			fr.i.ctx.end("UNSUPPORTED", "regexp.SubexpNames on a symbolic pattern")
		}
		names := re.SubexpNames()
		out := make([]value, len(names))
		for k := range names {
			out[k] = names[k]
		}
		return out
	}
	externals["(*regexp.Regexp).MatchString"] = func(fr *frame, a []value) value {
		p := a[0].(*value)
		h := fr.i.regexes[p]
		if h == nil {
			fr.i.ctx.end("UNSUPPORTED", "regexp not created through the MustCompile stub")
		}
		key := strKeyOf(a[1])
		if v, ok := h.memo[key]; ok {
			return v
		}
		v := fr.i.ctx.FreshInternal("rematch", types.Bool)
		h.memo[key] = v
		return v
	}
}

// strKeyOf renders a string value so that two renderings are equal iff the strings are
// syntactically the same (same concrete bytes and same symbolic terms).
func strKeyOf(v value) string {
	var sb strings.Builder
	for _, b := range strBytes(v) {
		switch b := b.(type) {
		case byte:
			sb.WriteByte('c')
			sb.WriteString(string(rune('0' + b/100)))
			sb.WriteString(string(rune('0' + b/10%10)))
			sb.WriteString(string(rune('0' + b%10)))
		case *Sym:
			sb.WriteByte('t')
			sb.WriteString(sym.Ref(b.T))
		}
		sb.WriteByte(',')
	}
	return sb.String()
}
