package interp

import (
	"fmt"
	"go/types"
	"math/big"
	"strings"

	"symx/smt"
	"symx/sym"
)

// Mode selects the encoding of integers and floats.
type EncMode int

const (
	Machine EncMode = iota // bit-vectors + IEEE floats: exact Go semantics
	Math                   // Int (interval tracked, explicit wrap) + Real: see DESIGN §2.2
)

// pathEnd is panicked (Go panic) to unwind the interpreter when a path cannot continue.
type pathEnd struct {
	kind string // "INFEASIBLE", "BLOCKED", "UNSUPPORTED", "UNWIND", "ASSUME", "BUDGET"
	msg  string
}

// Nondet records one nondeterministic input of the harness, in call order.
type Nondet struct {
	Name string
	Kind string // "bool","int",...,"bytes"(one entry per byte not used: bytes are individual vars)
	Term *sym.Term
	GoK  types.BasicKind
}

type Violation struct {
	Site      string // function and source position of the failing obligation
	Msg       string
	Kind      string // "panic" | "assert"
	Model     smt.Model
	Nondets   []Nondet
	Decisions []int
	Values    []string // rendered nondet values in call order
	Stack     []string
	Unsure    bool // no definite model could be obtained
}

type PathResult struct {
	End       string // "ok" or pathEnd.kind or "PANIC"
	Msg       string
	Violation *Violation
	Witness   *Violation
	Reached   []string
	Decisions int
	Steps     int64
}

// Ctx is the per-worker symbolic execution context.
type Ctx struct {
	B    *sym.Builder
	S    *smt.Solver
	Mode EncMode

	prefix []int
	pos    int
	trace  []int
	pc     []*sym.Term
	sent   int // number of pc entries already asserted in the solver

	nondets []Nondet
	pending [][]int // sibling prefixes discovered on this path

	reached map[string]bool
	steps   int64

	MaxDecisions int
	MaxSteps     int64
	unsure       bool // an "unknown" feasibility answer was treated as feasible on this path

	// statistics (accumulated over paths)
	Obligations int64 // symbolic obligations sent to the solver
	Discharged  int64 // ... answered unsat (cannot fail)
	Trivial     int64 // obligations decided by constant folding
	Forks       int64
	Inconcl     int64
	Samples     []string
	opaqueSeq   int
	facts       map[string]bool // ground facts already asserted on this path
	schedSeq    int
	known       map[int]bool
	knownFalse  map[int]bool
	opaqueUsed  bool
	pfCalls     []pfCall
	PFLearned   map[int][]string // ParseFloat facts learned by CEGAR (persist across paths)
	Asserts     int64
	Refuted     int64
	parked      int
}

func NewCtx(b *sym.Builder, s *smt.Solver, mode EncMode) *Ctx {
	return &Ctx{B: b, S: s, Mode: mode, MaxDecisions: 4000, MaxSteps: 50_000_000}
}

func (c *Ctx) beginPath(prefix []int) {
	c.prefix = prefix
	c.pos = 0
	c.trace = c.trace[:0]
	c.pc = c.pc[:0]
	c.known = map[int]bool{}
	c.knownFalse = map[int]bool{}
	c.sent = 0
	c.nondets = c.nondets[:0]
	c.pending = nil
	c.reached = map[string]bool{}
	c.steps = 0
	c.unsure = false
	c.opaqueSeq = 0
	c.schedSeq = 0
	c.facts = map[string]bool{}
	c.opaqueUsed = false
	c.pfCalls = c.pfCalls[:0]
	c.parked = 0
	if c.PFLearned == nil {
		c.PFLearned = map[int][]string{}
	}
	c.S.BeginPath()
}

func (c *Ctx) live() bool { return c.pos >= len(c.prefix) }

func (c *Ctx) flushPC() {
	for ; c.sent < len(c.pc); c.sent++ {
		c.S.Assert(c.pc[c.sent])
	}
}

func (c *Ctx) addPC(t *sym.Term) {
	if t.IsTrue() {
		return
	}
	c.pc = append(c.pc, t)
	c.noteKnown(t)
}

// noteKnown records t (and the conjuncts of an `and`) as syntactically known on this path, so
// that a later branch on the very same term (terms are hash-consed) needs no solver call.
func (c *Ctx) noteKnown(t *sym.Term) {
	c.known[t.ID] = true
	if t.Kind == sym.TApp && t.Head == "and" {
		for _, a := range t.Args {
			c.noteKnown(a)
		}
	}
	if t.Kind == sym.TApp && t.Head == "not" {
		c.knownFalse[t.Args[0].ID] = true
		if a := t.Args[0]; a.Kind == sym.TApp && a.Head == "or" {
			for _, x := range a.Args {
				c.knownFalse[x.ID] = true
			}
		}
	}
}

// syntactic returns +1 if t is known to hold on this path, -1 if known not to, 0 otherwise.
func (c *Ctx) syntactic(t *sym.Term) int {
	if c.known[t.ID] {
		return 1
	}
	if c.knownFalse[t.ID] {
		return -1
	}
	if t.Kind == sym.TApp && t.Head == "not" {
		return -c.syntactic(t.Args[0])
	}
	return 0
}

func (c *Ctx) end(kind, format string, args ...interface{}) {
	panic(pathEnd{kind: kind, msg: fmt.Sprintf(format, args...)})
}

func (c *Ctx) sat(t *sym.Term) smt.Result {
	if t.IsTrue() {
		return smt.Sat
	}
	if t.IsFalse() {
		return smt.Unsat
	}
	c.flushPC()
	r, _ := c.S.Check([]*sym.Term{t}, nil)
	return r
}

// Choose picks one of the mutually exclusive, jointly exhaustive conditions. Every call with
// at least two non-false conditions consumes or produces exactly one trace entry, so that
// re-execution of a prefix is deterministic without consulting the solver.
func (c *Ctx) Choose(conds []*sym.Term) int {
	// constant and syntactic resolution (identical in live and replay mode)
	nz := -1
	cnt := 0
	var filtered []*sym.Term
	for i, t := range conds {
		if t.IsTrue() {
			return i
		}
		if !t.IsFalse() {
			switch c.syntactic(t) {
			case 1:
				return i
			case -1:
				if filtered == nil {
					filtered = append([]*sym.Term{}, conds...)
				}
				filtered[i] = c.B.False
				continue
			}
			cnt++
			nz = i
		}
	}
	if filtered != nil {
		conds = filtered
	}
	if cnt == 0 {
		c.end("INFEASIBLE", "no feasible alternative")
	}
	if cnt == 1 {
		c.addPC(conds[nz])
		return nz
	}
	if !c.live() {
		d := c.prefix[c.pos]
		c.pos++
		c.trace = append(c.trace, d)
		if d < 0 || d >= len(conds) || conds[d].IsFalse() {
			c.end("DESYNC", "replayed decision %d does not fit %d alternatives", d, len(conds))
		}
		c.addPC(conds[d])
		return d
	}
	if len(c.trace) >= c.MaxDecisions {
		c.end("UNWIND", "more than %d decisions on one path", c.MaxDecisions)
	}
	c.Forks++
	var feas []int
	rem := cnt
	for i, t := range conds {
		if t.IsFalse() {
			continue
		}
		rem--
		if rem == 0 && len(feas) == 0 {
			// all others infeasible: this one holds (pc is satisfiable by invariant)
			feas = append(feas, i)
			break
		}
		switch c.sat(t) {
		case smt.Sat:
			feas = append(feas, i)
		case smt.Unknown:
			c.Inconcl++
			c.unsure = true
			feas = append(feas, i)
		}
	}
	if len(feas) == 0 {
		c.end("INFEASIBLE", "no feasible alternative (solver)")
	}
	d := feas[0]
	for _, o := range feas[1:] {
		p := make([]int, len(c.trace)+1)
		copy(p, c.trace)
		p[len(c.trace)] = o
		c.pending = append(c.pending, p)
	}
	c.trace = append(c.trace, d)
	c.pos++ // keep pos == len(trace) in live mode
	c.addPC(conds[d])
	return d
}

func (c *Ctx) Branch(cond *sym.Term) bool {
	return c.Choose([]*sym.Term{cond, c.B.Not(cond)}) == 0
}

// Require is a Go-runtime obligation (index in range, divisor non-zero, ...). It returns
// true if execution continues normally and false if the caller must raise the panic.
// The failing side is tried first by the solver, since it is normally infeasible.
func (c *Ctx) Require(cond *sym.Term, what string) bool {
	if cond.IsTrue() {
		c.Trivial++
		return true
	}
	if cond.IsFalse() {
		c.Trivial++
		return false
	}
	switch c.syntactic(cond) {
	case 1:
		c.Trivial++
		return true
	case -1:
		c.Trivial++
		return false
	}
	if !c.live() {
		d := c.prefix[c.pos]
		c.pos++
		c.trace = append(c.trace, d)
		if d == 0 {
			c.addPC(cond)
			return true
		}
		c.addPC(c.B.Not(cond))
		return false
	}
	if len(c.trace) >= c.MaxDecisions {
		c.end("UNWIND", "more than %d decisions on one path", c.MaxDecisions)
	}
	c.Obligations++
	neg := c.B.Not(cond)
	r := c.sat(neg)
	if r == smt.Unsat {
		c.Discharged++
		if len(c.Samples) < 12 {
			c.Samples = append(c.Samples, fmt.Sprintf("%s: unsat under %d path constraints", what, len(c.pc)))
		}
		c.trace = append(c.trace, 0)
		c.pos++
		// cond is implied by pc; it is still recorded so that the syntactic cache evolves
		// identically in live and replay mode
		c.addPC(cond)
		return true
	}
	if r == smt.Unknown {
		c.Inconcl++
		c.unsure = true
	}
	// the failing side is (possibly) feasible: is the passing side?
	rp := c.sat(cond)
	if rp == smt.Unsat {
		c.trace = append(c.trace, 1)
		c.pos++
		c.addPC(neg)
		return false
	}
	// both: continue on the passing side, queue the failing side
	p := make([]int, len(c.trace)+1)
	copy(p, c.trace)
	p[len(c.trace)] = 1
	c.pending = append(c.pending, p)
	c.trace = append(c.trace, 0)
	c.pos++
	c.addPC(cond)
	return true
}

// Assume restricts the path; an assumption that cannot hold ends it silently.
func (c *Ctx) Assume(cond *sym.Term) {
	if cond.IsTrue() {
		return
	}
	if cond.IsFalse() {
		c.end("ASSUME", "assumption is false")
	}
	if c.live() {
		if c.sat(cond) == smt.Unsat {
			c.end("ASSUME", "assumption infeasible")
		}
	}
	c.addPC(cond)
}

// Concretize returns a concrete value for an integer term by case split.
func (c *Ctx) Concretize(t *sym.Term, k types.BasicKind, limit int) uint64 {
	if t.IsConst() {
		if t.Sort.K == sym.KInt {
			return uint64(t.Big.Int64())
		}
		return t.Val
	}
	for n := 0; ; n++ {
		if n >= limit {
			c.end("UNSUPPORTED", "concretisation: more than %d feasible values", limit)
		}
		var cand *sym.Term
		if !c.live() {
			// replay: decision tells whether candidate n was taken; candidates must be
			// regenerated deterministically, so they are stored in the trace as value pairs.
			// Encoding: trace entry = 2 + value index is impractical; instead each candidate
			// round consumes two entries: the candidate value, then 0/1.
			v := c.prefix[c.pos]
			c.pos++
			c.trace = append(c.trace, v)
			cand = c.constOfKind(uint64(v), t)
		} else {
			c.flushPC()
			r, m := c.S.Check(nil, []*sym.Term{c.varOrDefine(t)})
			if r != smt.Sat {
				if r == smt.Unknown {
					c.Inconcl++
					c.end("UNSUPPORTED", "concretisation: solver unknown")
				}
				c.end("INFEASIBLE", "concretisation on infeasible path")
			}
			mv := m[c.varOrDefine(t).ID]
			var v uint64
			if t.Sort.K == sym.KInt {
				v = uint64(mv.Int.Int64())
			} else {
				v = mv.Bits
			}
			c.trace = append(c.trace, int(v))
			c.pos++
			cand = c.constOfKind(v, t)
		}
		if c.Branch(c.B.Eq(t, cand)) {
			if cand.Sort.K == sym.KInt {
				return uint64(cand.Big.Int64())
			}
			return cand.Val
		}
	}
}

func (c *Ctx) constOfKind(v uint64, like *sym.Term) *sym.Term {
	if like.Sort.K == sym.KInt {
		return c.B.IntC64(int64(v))
	}
	return c.B.BVC(v, like.Sort.W)
}

// varOrDefine: get-value works on any term reference, so the term itself is returned.
func (c *Ctx) varOrDefine(t *sym.Term) *sym.Term { return t }

// ---------------------------------------------------------------------------------------
// nondeterministic inputs

func (c *Ctx) sortOfKind(k types.BasicKind) sym.Sort {
	switch {
	case k == types.Bool:
		return sym.Bool
	case kindIsInt(k):
		if c.Mode == Math {
			return sym.Int
		}
		return sym.BV(kindWidth(k))
	case k == types.Float64:
		if c.Mode == Math {
			return sym.Real
		}
		return sym.FP64
	case k == types.Float32:
		if c.Mode == Math {
			return sym.Real
		}
		return sym.FP32
	}
	panic(fmt.Sprintf("sortOfKind %v", k))
}

func kindRange(k types.BasicKind) (lo, hi *big.Int) {
	w := uint(kindWidth(k))
	if kindSigned(k) {
		hi = new(big.Int).Lsh(big.NewInt(1), w-1)
		lo = new(big.Int).Neg(hi)
		hi = new(big.Int).Sub(hi, big.NewInt(1))
		return
	}
	lo = big.NewInt(0)
	hi = new(big.Int).Sub(new(big.Int).Lsh(big.NewInt(1), w), big.NewInt(1))
	return
}

// Fresh creates the next nondeterministic input of kind k.
func (c *Ctx) Fresh(label string, k types.BasicKind) *Sym {
	return c.freshRange(label, k, nil, nil)
}

// rawRange asserts lo <= t <= hi without interval-based folding (the interval of a variable is
// only sound because this constraint is on the path condition).
func (c *Ctx) rawRange(t *sym.Term, lo, hi *big.Int) {
	c.addPC(c.B.App("and", sym.Bool, c.B.App("<=", sym.Bool, c.B.IntC(lo), t), c.B.App("<=", sym.Bool, t, c.B.IntC(hi))))
}

func (c *Ctx) freshRange(label string, k types.BasicKind, lo, hi *big.Int) *Sym {
	name := fmt.Sprintf("n%d_%s", len(c.nondets), label)
	so := c.sortOfKind(k)
	if so.K == sym.KInt && lo != nil {
		name += fmt.Sprintf("_%s_%s", strings.Replace(lo.String(), "-", "m", 1), strings.Replace(hi.String(), "-", "m", 1))
	}
	t := c.B.Var(name, so)
	c.nondets = append(c.nondets, Nondet{Name: name, Kind: label, Term: t, GoK: k})
	if so.K == sym.KInt {
		if lo == nil {
			lo, hi = kindRange(k)
		}
		if t.Lo == nil {
			t.Lo, t.Hi = lo, hi
		}
		c.rawRange(t, lo, hi)
	}
	return &Sym{T: t, K: k}
}

// FreshInternal creates an auxiliary symbol that is not a harness input (stub results).
func (c *Ctx) FreshInternal(label string, k types.BasicKind) *Sym {
	c.opaqueSeq++
	name := fmt.Sprintf("aux%d_%d_%s", len(c.nondets), c.opaqueSeq, label)
	so := c.sortOfKind(k)
	t := c.B.Var(name, so)
	if so.K == sym.KInt {
		if t.Lo == nil {
			t.Lo, t.Hi = kindRange(k)
		}
		c.rawRange(t, t.Lo, t.Hi)
	}
	return &Sym{T: t, K: k}
}

func (c *Ctx) Reach(label string) { c.reached[label] = true }

// finalModel obtains values for all nondets (and extra terms) under the current pc.
func (c *Ctx) finalModel(extra []*sym.Term) (smt.Model, smt.Result) {
	c.flushPC()
	var want []*sym.Term
	for _, n := range c.nondets {
		want = append(want, n.Term)
	}
	for _, e := range extra {
		if !e.IsConst() {
			want = append(want, e)
		}
	}
	if len(want) == 0 {
		r, _ := c.S.Check(nil, nil)
		return smt.Model{}, r
	}
	r, m := c.S.Check(nil, want)
	if r != smt.Sat {
		return nil, r
	}
	return m, smt.Sat
}

func renderModelValue(n Nondet, v smt.Value) string {
	switch {
	case n.GoK == types.Bool:
		if v.Bits != 0 {
			return "true"
		}
		return "false"
	case v.Sort.K == sym.KInt:
		return v.Int.String()
	case v.Sort.K == sym.KReal:
		f, _ := v.Rat.Float64()
		return fmt.Sprintf("%v", f)
	case kindIsFloat(n.GoK):
		if n.GoK == types.Float32 {
			return fmt.Sprintf("f32bits:%d", v.Bits)
		}
		return fmt.Sprintf("f64bits:%d", v.Bits)
	case kindSigned(n.GoK):
		w := uint(kindWidth(n.GoK))
		return fmt.Sprintf("%d", int64(v.Bits<<(64-w))>>(64-w))
	default:
		return fmt.Sprintf("%d", v.Bits)
	}
}

func (c *Ctx) describePC() string {
	var parts []string
	for _, t := range c.pc {
		parts = append(parts, sym.Ref(t))
	}
	return strings.Join(parts, " ")
}
