package interp

import (
	"fmt"
	"go/types"

	"golang.org/x/tools/go/ssa"

	"symx/sym"
)

// The engine is single-threaded (DESIGN §2.6): `go f()` runs f to completion at the spawn
// point unless the harness registered the function as "deferred" (then it is queued and run
// when the spawner blocks). Channels are FIFOs with concrete capacity; an operation that
// cannot proceed ends the path as BLOCKED.

func (fr *frame) spawn(instr *ssa.Go, fn value, args []value) {
	fr.spawnGo(fn, args)
}

func (ch *channel) sendReady() bool {
	if ch.closed || ch.sink != nil || ch.unboundedSink {
		return true
	}
	if ch.cap == 0 {
		// unbuffered: possible when a receiver is waiting and no value is in flight
		return ch.recvWaiters > 0 && len(ch.buf) == 0
	}
	return len(ch.buf) < ch.cap
}

func (ch *channel) recvReady() bool { return len(ch.buf) > 0 || ch.closed }

func (fr *frame) send(ch *channel, v value) {
	c := fr.i.ctx
	if ch == nil {
		fr.park(func() bool { return false }, "send on nil channel at "+fr.site())
	}
	if !ch.sendReady() {
		fr.park(ch.sendReady, fmt.Sprintf("send on channel (cap %d, len %d) at %s", ch.cap, len(ch.buf), fr.site()))
	}
	if ch.closed {
		c.runtimeError(fr, "send on closed channel")
	}
	if ch.sink != nil {
		ch.sink(fr, v)
		return
	}
	ch.buf = append(ch.buf, copyVal(v))
}

func (fr *frame) recv(ch *channel, elem types.Type, commaOk bool) value {
	if ch == nil {
		fr.park(func() bool { return false }, "receive from nil channel at "+fr.site())
	}
	if !ch.recvReady() {
		ch.recvWaiters++
		func() {
			defer func() { ch.recvWaiters-- }()
			fr.park(ch.recvReady, "receive from empty channel at "+fr.site())
		}()
	}
	var v value
	ok := true
	if len(ch.buf) > 0 {
		v = ch.buf[0]
		ch.buf = ch.buf[1:]
	} else {
		v = zero(elem)
		ok = false
	}
	if commaOk {
		return tuple{v, ok}
	}
	return v
}

func (fr *frame) doSelect(instr *ssa.Select) value {
	c := fr.i.ctx
	var ready []int
	compute := func() {
		ready = ready[:0]
		for i, st := range instr.States {
			ch, _ := fr.get(st.Chan).(*channel)
			if ch == nil {
				continue
			}
			if st.Dir == types.RecvOnly {
				if ch.recvReady() {
					ready = append(ready, i)
				}
			} else if ch.sendReady() {
				ready = append(ready, i)
			}
		}
	}
	compute()
	if len(ready) == 0 && instr.Blocking {
		// park until some case becomes possible; while parked this goroutine counts as a
		// waiting receiver on the channels of its receive cases
		var rch []*channel
		for _, st := range instr.States {
			if ch, _ := fr.get(st.Chan).(*channel); ch != nil && st.Dir == types.RecvOnly {
				ch.recvWaiters++
				rch = append(rch, ch)
			}
		}
		func() {
			defer func() {
				for _, ch := range rch {
					ch.recvWaiters--
				}
			}()
			fr.park(func() bool { compute(); return len(ready) > 0 }, "select with no ready case at "+fr.site())
		}()
		compute()
	}
	chosen := -1
	switch {
	case len(ready) == 0:
		// non-blocking select: default case
	case len(ready) == 1:
		chosen = ready[0]
	default:
		// scheduling nondeterminism: fork on a fresh schedule variable
		c.schedSeq++
		sv := c.Fresh("sched", types.Uint8)
		conds := make([]*sym.Term, len(ready))
		for k := range ready {
			if c.Mode == Math {
				conds[k] = c.B.Eq(sv.T, c.B.IntC64(int64(k)))
			} else {
				conds[k] = c.B.Eq(sv.T, c.B.BVC(uint64(k), 8))
			}
		}
		c.Assume(c.B.Or(conds...))
		chosen = ready[c.Choose(conds)]
	}
	recvOk := false
	var recvVal value
	if chosen >= 0 {
		st := instr.States[chosen]
		ch := fr.get(st.Chan).(*channel)
		if st.Dir == types.RecvOnly {
			r := fr.recv(ch, st.Chan.Type().Underlying().(*types.Chan).Elem(), true).(tuple)
			recvVal, recvOk = r[0], r[1].(bool)
		} else {
			fr.send(ch, fr.get(st.Send))
		}
	}
	r := tuple{chosen, recvOk}
	for i, st := range instr.States {
		if st.Dir == types.RecvOnly {
			var v value
			if i == chosen && recvOk {
				v = recvVal
			} else {
				v = zero(st.Chan.Type().Underlying().(*types.Chan).Elem())
			}
			r = append(r, v)
		}
	}
	return r
}

var _ = fmt.Sprint
