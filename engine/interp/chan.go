package interp

import (
	"fmt"
	"go/types"

	"golang.org/x/tools/go/ssa"

	"symx/sym"
)

// The engine is single-threaded (DESIGN §2.6): `go f()` runs f to completion at the spawn
// point unless the harness registered the function as "deferred" (then it is queued and run
// when the spawner blocks). Channels are FIFOs with concrete capacity; an operation that
// cannot proceed ends the path as BLOCKED.

func (fr *frame) spawn(instr *ssa.Go, fn value, args []value) {
	i := fr.i
	// run inline; a BLOCKED end inside the goroutine only parks that goroutine
	func() {
		defer func() {
			if r := recover(); r != nil {
				if pe, ok := r.(pathEnd); ok && pe.kind == "BLOCKED" {
					i.ctx.parked++
					return
				}
				panic(r)
			}
		}()
		call(i, fr, instr.Pos(), fn, args)
	}()
}

func (fr *frame) send(ch *channel, v value) {
	c := fr.i.ctx
	if ch == nil {
		c.end("BLOCKED", "send on nil channel")
	}
	if ch.closed {
		c.runtimeError(fr, "send on closed channel")
	}
	if ch.sink != nil {
		ch.sink(fr, v)
		return
	}
	if len(ch.buf) >= ch.cap && !ch.unboundedSink {
		c.end("BLOCKED", "send on full channel (cap %d) at %s", ch.cap, fr.site())
	}
	ch.buf = append(ch.buf, copyVal(v))
}

func (fr *frame) recv(ch *channel, elem types.Type, commaOk bool) value {
	c := fr.i.ctx
	if ch == nil {
		c.end("BLOCKED", "receive from nil channel")
	}
	var v value
	ok := true
	if len(ch.buf) > 0 {
		v = ch.buf[0]
		ch.buf = ch.buf[1:]
	} else if ch.closed {
		v = zero(elem)
		ok = false
	} else {
		c.end("BLOCKED", "receive from empty channel at %s", fr.site())
	}
	if commaOk {
		return tuple{v, ok}
	}
	return v
}

func (fr *frame) doSelect(instr *ssa.Select) value {
	c := fr.i.ctx
	var ready []int
	for i, st := range instr.States {
		ch, _ := fr.get(st.Chan).(*channel)
		if ch == nil {
			continue
		}
		if st.Dir == types.RecvOnly {
			if len(ch.buf) > 0 || ch.closed {
				ready = append(ready, i)
			}
		} else {
			if ch.closed || ch.sink != nil || ch.unboundedSink || len(ch.buf) < ch.cap {
				ready = append(ready, i)
			}
		}
	}
	chosen := -1
	switch {
	case len(ready) == 0:
		if instr.Blocking {
			c.end("BLOCKED", "select with no ready case at %s", fr.site())
		}
	case len(ready) == 1:
		chosen = ready[0]
	default:
		// scheduling nondeterminism: fork on a fresh schedule variable
		c.schedSeq++
		sv := c.Fresh("sched", types.Uint8)
		conds := make([]*sym.Term, len(ready))
		for k := range ready {
			if c.Mode == Math {
				conds[k] = c.B.Eq(sv.T, c.B.IntC64(int64(k)))
			} else {
				conds[k] = c.B.Eq(sv.T, c.B.BVC(uint64(k), 8))
			}
		}
		c.Assume(c.B.Or(conds...))
		chosen = ready[c.Choose(conds)]
	}
	recvOk := false
	var recvVal value
	if chosen >= 0 {
		st := instr.States[chosen]
		ch := fr.get(st.Chan).(*channel)
		if st.Dir == types.RecvOnly {
			r := fr.recv(ch, st.Chan.Type().Underlying().(*types.Chan).Elem(), true).(tuple)
			recvVal, recvOk = r[0], r[1].(bool)
		} else {
			fr.send(ch, fr.get(st.Send))
		}
	}
	r := tuple{chosen, recvOk}
	for i, st := range instr.States {
		if st.Dir == types.RecvOnly {
			var v value
			if i == chosen && recvOk {
				v = recvVal
			} else {
				v = zero(st.Chan.Type().Underlying().(*types.Chan).Elem())
			}
			r = append(r, v)
		}
	}
	return r
}

var _ = fmt.Sprint
