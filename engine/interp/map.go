package interp

import (
	"go/types"

	"golang.org/x/tools/go/ssa"
)

// smap models a Go map as an insertion-ordered association list. Key comparison may be a
// symbolic condition, in which case lookups fork (DESIGN §2.2). Iteration order is insertion
// order unless the harness asks for permutations.
type smap struct {
	kt      types.Type
	entries []*mentry
	idx     map[interface{}]*mentry // concrete hashable keys
	nsym    int                     // live entries with non-indexable keys
	n       int
}

type mentry struct {
	k, v    value
	deleted bool
	indexed bool
}

func makeMap(kt types.Type) *smap {
	return &smap{kt: kt, idx: map[interface{}]*mentry{}}
}

func (m *smap) len() int {
	if m == nil {
		return 0
	}
	return m.n
}

func keyIndexable(k value) (interface{}, bool) {
	switch k := k.(type) {
	case iface:
		if k.t == nil {
			return "<nil-iface>", true
		}
		if h, ok := hashableConcrete(k.v); ok {
			return [2]interface{}{k.t.String(), h}, true
		}
		return nil, false
	}
	return hashableConcrete(k)
}

// find returns the entry equal to k, forking on symbolic comparisons.
func (m *smap) find(fr *frame, k value) *mentry {
	if m == nil {
		return nil
	}
	c := fr.i.ctx
	h, hok := keyIndexable(k)
	if hok {
		if e, ok := m.idx[h]; ok {
			return e
		}
		if m.nsym == 0 {
			return nil
		}
	}
	for _, e := range m.entries {
		if e.deleted {
			continue
		}
		if hok && e.indexed {
			continue // both concrete and different
		}
		cond := c.eqv(m.kt, e.k, k)
		if cond.IsFalse() {
			continue
		}
		if cond.IsTrue() || c.Branch(cond) {
			return e
		}
	}
	return nil
}

func (m *smap) lookup(fr *frame, k value) (value, bool) {
	if e := m.find(fr, k); e != nil {
		return e.v, true
	}
	return nil, false
}

func (m *smap) insert(fr *frame, k, v value) {
	if m == nil {
		fr.i.ctx.runtimeError(fr, "assignment to entry in nil map")
	}
	if e := m.find(fr, k); e != nil {
		e.v = v
		return
	}
	e := &mentry{k: k, v: v}
	if h, ok := keyIndexable(k); ok {
		m.idx[h] = e
		e.indexed = true
	} else {
		m.nsym++
	}
	m.entries = append(m.entries, e)
	m.n++
}

func (m *smap) delete(fr *frame, k value) {
	if m == nil {
		return
	}
	if e := m.find(fr, k); e != nil {
		e.deleted = true
		m.n--
		if e.indexed {
			h, _ := keyIndexable(e.k)
			delete(m.idx, h)
		} else {
			m.nsym--
		}
	}
}

func (m *smap) clear() {
	if m == nil {
		return
	}
	for _, e := range m.entries {
		e.deleted = true
	}
	m.entries = nil
	m.idx = map[interface{}]*mentry{}
	m.n, m.nsym = 0, 0
}

type smapIter struct {
	m    *smap
	i    int
	perm []int // optional explicit order over a snapshot
}

func (m *smap) iter() iter {
	return &smapIter{m: m}
}

func (it *smapIter) next(fr *frame) tuple {
	if it.m != nil {
		for it.i < len(it.m.entries) {
			e := it.m.entries[it.i]
			it.i++
			if e.deleted {
				continue
			}
			return tuple{true, e.k, e.v}
		}
	}
	return tuple{false, nil, nil}
}

func lookup(fr *frame, instr *ssa.Lookup, x, idx value) value {
	switch x := x.(type) {
	case *smap:
		v, ok := x.lookup(fr, idx)
		if !ok {
			v = zero(instr.X.Type().Underlying().(*types.Map).Elem())
		} else {
			v = copyVal(v)
		}
		if instr.CommaOk {
			v = tuple{v, ok}
		}
		return v
	}
	panic("unexpected x type in Lookup")
}
