package interp

import (
	"encoding/json"

	"symx/sym"
	"fmt"
	"go/token"
	"go/types"
	"reflect"
	"strings"
)

// JSON decoding leaves (jsoniter.Unmarshal, jsoniter.NewDecoder(r).Decode, encoding/json
// likewise): for a CONCRETE input text the host's encoding/json parses it and the result is
// written into the interpreted target according to the target's static type (struct fields by
// json tag or case-insensitive name, slices, strings, booleans, numbers, pointers, maps with
// string keys and string values). A symbolic text ends the path as UNSUPPORTED. Encoding
// leaves (Marshal, NewEncoder(w).Encode) produce a distinct handle per call.

func concreteBytes(v value) ([]byte, bool) {
	bs, ok := v.([]value)
	if !ok {
		return nil, v == nil
	}
	out := make([]byte, len(bs))
	for k, b := range bs {
		cb, ok := b.(byte)
		if !ok {
			return nil, false
		}
		out[k] = cb
	}
	return out, true
}

func jsonFieldName(f *types.Var, tag string) (string, bool) {
	t := reflect.StructTag(tag).Get("json")
	if t == "-" {
		return "", false
	}
	if k := strings.Index(t, ","); k >= 0 {
		t = t[:k]
	}
	if t == "" {
		t = f.Name()
	}
	return t, f.Exported()
}

func (fr *frame) jsonInto(t types.Type, x interface{}) value {
	switch u := t.Underlying().(type) {
	case *types.Basic:
		switch {
		case u.Info()&types.IsString != 0:
			if s, ok := x.(string); ok {
				return s
			}
		case u.Info()&types.IsBoolean != 0:
			if b, ok := x.(bool); ok {
				return b
			}
		case u.Info()&types.IsNumeric != 0:
			if n, ok := x.(float64); ok {
				switch u.Kind() {
				case types.Int:
					return int(n)
				case types.Int8:
					return int8(n)
				case types.Int16:
					return int16(n)
				case types.Int32:
					return int32(n)
				case types.Int64:
					return int64(n)
				case types.Uint:
					return uint(n)
				case types.Uint8:
					return uint8(n)
				case types.Uint16:
					return uint16(n)
				case types.Uint32:
					return uint32(n)
				case types.Uint64:
					return uint64(n)
				case types.Float32:
					return float32(n)
				case types.Float64:
					return n
				}
			}
		}
		return zero(t)
	case *types.Pointer:
		if x == nil {
			return zero(t)
		}
		cell := fr.jsonInto(u.Elem(), x)
		return &cell
	case *types.Slice:
		arr, ok := x.([]interface{})
		if !ok {
			return zero(t)
		}
		out := make([]value, len(arr))
		for k, e := range arr {
			out[k] = fr.jsonInto(u.Elem(), e)
		}
		return out
	case *types.Struct:
		s := zero(t).(structure)
		obj, ok := x.(map[string]interface{})
		if !ok {
			return s
		}
		for k := 0; k < u.NumFields(); k++ {
			name, ok := jsonFieldName(u.Field(k), u.Tag(k))
			if !ok {
				continue
			}
			for key, val := range obj {
				if strings.EqualFold(key, name) {
					s[k] = fr.jsonInto(u.Field(k).Type(), val)
				}
			}
		}
		return s
	case *types.Interface:
		// interface{} targets: strings only
		if s, ok := x.(string); ok {
			return iface{t: types.Typ[types.String], v: s}
		}
		return zero(t)
	}
	return zero(t)
}

// jsonDecodeInto implements Unmarshal(data, target) / Decode(target); returns the error value.
func (fr *frame) jsonDecodeInto(data []byte, target value) value {
	tgt, _ := target.(iface)
	if tgt.t == nil {
		return fr.errorValue("json: Unmarshal(nil)")
	}
	pt, ok := tgt.t.Underlying().(*types.Pointer)
	if !ok {
		return fr.errorValue("json: Unmarshal(non-pointer)")
	}
	var x interface{}
	if err := json.Unmarshal(data, &x); err != nil {
		return fr.errorValue("json: " + err.Error())
	}
	cell := tgt.v.(*value)
	*cell = fr.jsonInto(pt.Elem(), x)
	return iface{}
}

func (fr *frame) readAllFrom(r value) ([]byte, bool) {
	pkg := fr.i.prog.ImportedPackage("io")
	if pkg == nil {
		fr.i.ctx.end("UNSUPPORTED", "io not loaded")
	}
	res := call(fr.i, fr, token.NoPos, pkg.Func("ReadAll"), []value{r}).(tuple)
	return concreteBytes(res[0])
}

type jsonCodec struct {
	rw value // the io.Reader / io.Writer
}

func init() {
	const jp = "github.com/json-iterator/go"
	unmarshal := func(fr *frame, a []value) value {
		data, ok := concreteBytes(a[0])
		if !ok {
			fr.i.ctx.end("UNSUPPORTED", "JSON decoding of a symbolic text")
		}
		return fr.jsonDecodeInto(data, a[1])
	}
	externals[jp+".Unmarshal"] = unmarshal
	externals["encoding/json.Unmarshal"] = unmarshal
	marshal := func(fr *frame, a []value) value {
		fr.i.protoSeq++
		return tuple{strBytes(fmt.Sprintf("JS#%05d", fr.i.protoSeq)), iface{}}
	}
	externals[jp+".Marshal"] = marshal
	codecCell := func(fr *frame, pkgPath, typeName string, rw value) value {
		pkg := fr.i.prog.ImportedPackage(pkgPath)
		if pkg == nil || pkg.Type(typeName) == nil {
			fr.i.ctx.end("UNSUPPORTED", "%s.%s not loaded", pkgPath, typeName)
		}
		cell := zero(pkg.Type(typeName).Type())
		p := &cell
		if fr.i.jsonCodecs == nil {
			fr.i.jsonCodecs = map[*value]*jsonCodec{}
		}
		fr.i.jsonCodecs[p] = &jsonCodec{rw: rw}
		return p
	}
	for _, pp := range []string{jp, "encoding/json"} {
		pp := pp
		externals[pp+".NewDecoder"] = func(fr *frame, a []value) value { return codecCell(fr, pp, "Decoder", a[0]) }
		externals[pp+".NewEncoder"] = func(fr *frame, a []value) value { return codecCell(fr, pp, "Encoder", a[0]) }
		externals["(*"+pp+".Decoder).Decode"] = func(fr *frame, a []value) value {
			cd := fr.i.jsonCodecs[a[0].(*value)]
			if cd == nil {
				fr.i.ctx.end("UNSUPPORTED", "json Decoder not from NewDecoder")
			}
			data, ok := fr.readAllFrom(cd.rw)
			if !ok {
				fr.i.ctx.end("UNSUPPORTED", "JSON decoding of a symbolic text")
			}
			return fr.jsonDecodeInto(data, a[1])
		}
		externals["(*"+pp+".Encoder).Encode"] = func(fr *frame, a []value) value {
			cd := fr.i.jsonCodecs[a[0].(*value)]
			if cd == nil {
				fr.i.ctx.end("UNSUPPORTED", "json Encoder not from NewEncoder")
			}
			fr.i.protoSeq++
			fr.writeTo(cd.rw, strBytes(fmt.Sprintf("JS#%05d\n", fr.i.protoSeq)))
			return iface{}
		}
	}
}

// reflect.DeepEqual without reflection: structural equality directed by the static type of the
// operands (both must have the same dynamic type, as DeepEqual requires). Scalars and strings
// compare through the engine's own == (so symbolic operands give a symbolic result); maps,
// slices, arrays, structs and pointers recurse. Function values and unsupported shapes end the
// path as UNSUPPORTED.
func (fr *frame) deepEq(t types.Type, x, y value, depth int) *sym.Term {
	c := fr.i.ctx
	b := c.B
	if depth > 16 {
		c.end("UNSUPPORTED", "reflect.DeepEqual: structure too deep")
	}
	switch u := t.Underlying().(type) {
	case *types.Basic:
		return fr.eqnil(t, x, y)
	case *types.Pointer:
		px, _ := x.(*value)
		py, _ := y.(*value)
		if px == py {
			return b.True
		}
		if px == nil || py == nil {
			return b.False
		}
		return fr.deepEq(u.Elem(), *px, *py, depth+1)
	case *types.Struct:
		sx, sy := x.(structure), y.(structure)
		acc := b.True
		for k := 0; k < u.NumFields(); k++ {
			acc = b.And(acc, fr.deepEq(u.Field(k).Type(), sx[k], sy[k], depth+1))
		}
		return acc
	case *types.Array:
		ax, ay := x.(array), y.(array)
		acc := b.True
		for k := range ax {
			acc = b.And(acc, fr.deepEq(u.Elem(), ax[k], ay[k], depth+1))
		}
		return acc
	case *types.Slice:
		sx, _ := x.([]value)
		sy, _ := y.([]value)
		if (sx == nil) != (sy == nil) || len(sx) != len(sy) {
			return b.False
		}
		acc := b.True
		for k := range sx {
			acc = b.And(acc, fr.deepEq(u.Elem(), sx[k], sy[k], depth+1))
		}
		return acc
	case *types.Map:
		mx, _ := x.(*smap)
		my, _ := y.(*smap)
		if (mx == nil) != (my == nil) {
			return b.False
		}
		if mx == nil {
			return b.True
		}
		if mx.nsym > 0 || my.nsym > 0 {
			c.end("UNSUPPORTED", "reflect.DeepEqual on a map with symbolic keys")
		}
		if mx.len() != my.len() {
			return b.False
		}
		acc := b.True
		for _, e := range mx.entries {
			if e.deleted {
				continue
			}
			v2, ok := my.lookup(fr, e.k)
			if !ok {
				return b.False
			}
			acc = b.And(acc, fr.deepEq(u.Elem(), e.v, v2, depth+1))
		}
		return acc
	case *types.Interface:
		ix, iy := x.(iface), y.(iface)
		if ix.t == nil || iy.t == nil {
			if ix.t == nil && iy.t == nil {
				return b.True
			}
			return b.False
		}
		if !types.Identical(ix.t, iy.t) {
			return b.False
		}
		return fr.deepEq(ix.t, ix.v, iy.v, depth+1)
	}
	c.end("UNSUPPORTED", "reflect.DeepEqual on %v", t)
	return nil
}

func init() {
	externals["reflect.DeepEqual"] = func(fr *frame, a []value) value {
		c := fr.i.ctx
		ix, iy := a[0].(iface), a[1].(iface)
		if ix.t == nil || iy.t == nil {
			return ix.t == nil && iy.t == nil
		}
		if !types.Identical(ix.t, iy.t) {
			return false
		}
		return c.mkval(fr.deepEq(ix.t, ix.v, iy.v, 0), types.Bool)
	}
}
