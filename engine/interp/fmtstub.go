package interp

import (
	"fmt"
	"go/token"
	"go/types"
	"strconv"

	"golang.org/x/tools/go/ssa"
)

// fmt: a small formatter over interpreter values. Verbs applied to concrete scalars and to
// (possibly symbolic) strings are rendered exactly; anything else becomes an opaque non-empty
// string of three fresh symbolic bytes (DESIGN §2.5).

func init() {
	externals["fmt.Sprintf"] = func(fr *frame, a []value) value { return mkString(fr.format(a[0], a[1].([]value))) }
	externals["fmt.Sprint"] = func(fr *frame, a []value) value { return mkString(fr.formatPlain(a[0].([]value), false)) }
	externals["fmt.Sprintln"] = func(fr *frame, a []value) value {
		return mkString(append(fr.formatPlain(a[0].([]value), true), byte('\n')))
	}
	externals["fmt.Errorf"] = func(fr *frame, a []value) value {
		return iface{t: fr.i.errorStringPtr(), v: fr.i.newErrorStringV(mkString(fr.format(a[0], a[1].([]value))))}
	}
	externals["fmt.Fprintf"] = func(fr *frame, a []value) value {
		return fr.writeTo(a[0], fr.format(a[1], a[2].([]value)))
	}
	externals["fmt.Fprint"] = func(fr *frame, a []value) value {
		return fr.writeTo(a[0], fr.formatPlain(a[1].([]value), false))
	}
	externals["fmt.Fprintln"] = func(fr *frame, a []value) value {
		return fr.writeTo(a[0], append(fr.formatPlain(a[1].([]value), true), byte('\n')))
	}
	externals["fmt.Printf"] = func(fr *frame, a []value) value { return tuple{0, iface{}} }
	externals["fmt.Println"] = func(fr *frame, a []value) value { return tuple{0, iface{}} }
	externals["fmt.Print"] = func(fr *frame, a []value) value { return tuple{0, iface{}} }
}

func (i *interpreter) newErrorStringV(msg value) value {
	var cell value = structure{msg}
	return &cell
}

func (fr *frame) writeTo(w value, bs []value) value {
	wi := w.(iface)
	if wi.t == nil {
		fr.i.ctx.runtimeError(fr, "runtime error: invalid memory address or nil pointer dereference (Write on nil io.Writer)")
	}
	m := fr.i.safeLookup(wi.t, "Write")
	if m == nil {
		fr.i.ctx.end("UNSUPPORTED", "no Write method on %v", wi.t)
	}
	cp := make([]value, len(bs))
	copy(cp, bs)
	res := call(fr.i, fr, token.NoPos, m, []value{wi.v, cp})
	return res
}

func (fr *frame) opaqueBytes(label string) []value {
	return strBytes(fr.opaqueString(label, nil))
}

// renderArg renders one operand for verb v.
func (fr *frame) renderArg(verb byte, flags string, arg value) []value {
	c := fr.i.ctx
	if it, ok := arg.(iface); ok {
		if it.t == nil {
			return strBytes("<nil>")
		}
		// error / Stringer values: call Error()/String() when the dynamic type has them
		if verb == 'v' || verb == 's' {
			for _, mn := range []string{"Error", "String"} {
				if m := fr.i.safeLookup(it.t, mn); m != nil && m.Signature.Params().Len() == 0 && m.Signature.Results().Len() == 1 {
					if b, ok := m.Signature.Results().At(0).Type().Underlying().(*types.Basic); ok && b.Kind() == types.String {
						r := call(fr.i, fr, token.NoPos, m, []value{it.v})
						if isString(r) {
							return strBytes(r)
						}
					}
				}
			}
		}
		arg = it.v
	}
	switch x := arg.(type) {
	case string:
		if verb == 'q' {
			return strBytes(strconv.Quote(x))
		}
		if verb == 's' || verb == 'v' {
			return strBytes(x)
		}
	case *SymStr:
		if verb == 's' || verb == 'v' {
			return x.B
		}
	case bool:
		return strBytes(strconv.FormatBool(x))
	case float64:
		if verb == 'f' || verb == 'g' || verb == 'v' || verb == 'e' {
			return strBytes(fmt.Sprintf("%"+flags+string(verb), x))
		}
	case float32:
		return strBytes(fmt.Sprintf("%"+flags+string(verb), x))
	case *Sym:
		if kindIsInt(x.K) && (verb == 'd' || verb == 'v') && flags == "" {
			conv := c.symConv(fr, x, types.Int)
			return strBytes(extItoa(fr, []value{conv}))
		}
		return fr.opaqueBytes("fmt")
	}
	if k := kindOfValue(arg); kindIsInt(k) {
		if kindSigned(k) {
			return strBytes(fmt.Sprintf("%"+flags+string(verb), asInt64(arg)))
		}
		return strBytes(fmt.Sprintf("%"+flags+string(verb), rawBits(arg)))
	}
	return fr.opaqueBytes("fmt")
}

func (fr *frame) format(f value, args []value) []value {
	fs, ok := f.(string)
	if !ok {
		return fr.opaqueBytes("fmt")
	}
	var out []value
	ai := 0
	for i := 0; i < len(fs); i++ {
		ch := fs[i]
		if ch != '%' {
			out = append(out, ch)
			continue
		}
		i++
		if i >= len(fs) {
			break
		}
		if fs[i] == '%' {
			out = append(out, byte('%'))
			continue
		}
		st := i
		for i < len(fs) && (fs[i] == '+' || fs[i] == '-' || fs[i] == '#' || fs[i] == ' ' || fs[i] == '.' || (fs[i] >= '0' && fs[i] <= '9')) {
			i++
		}
		if i >= len(fs) {
			break
		}
		flags := fs[st:i]
		verb := fs[i]
		if ai >= len(args) {
			out = append(out, strBytes("%!"+string(verb)+"(MISSING)")...)
			continue
		}
		out = append(out, fr.renderArg(verb, flags, args[ai])...)
		ai++
	}
	return out
}

func (fr *frame) formatPlain(args []value, spaces bool) []value {
	var out []value
	for i, a := range args {
		if i > 0 && spaces {
			out = append(out, byte(' '))
		}
		out = append(out, fr.renderArg('v', "", a)...)
	}
	return out
}

// safeLookup returns the exported method `name` of dynamic type t, or nil if there is none.
func (i *interpreter) safeLookup(t types.Type, name string) *ssa.Function {
	sel := i.prog.MethodSets.MethodSet(t).Lookup(nil, name)
	if sel == nil {
		return nil
	}
	return i.prog.MethodValue(sel)
}
