package interp

import (
	"fmt"
	"net"
	"go/token"
	"go/types"
	"strings"
	"unicode/utf8"

	"symx/sym"
)

func utf8ValidGo(s string) bool { return utf8.ValidString(s) }

func stringsToValidUTF8(s, r string) string { return strings.ToValidUTF8(s, r) }

// Library leaves of the forwarder / receiver path (DESIGN §2.5, "wire = identity"):
//
//   proto.Marshal(m)      records m and returns an 8-byte handle; fails iff some string reachable
//                         from m is not valid UTF-8 (the documented precondition of Marshal,
//                         checked by executing the real utf8.ValidString symbolically)
//   proto.Unmarshal(b,&m) copies the recorded message designated by the handle into m; any
//                         other byte string is a decoding error
//   (*http.Client).Do     calls client.Transport.RoundTrip(req) - the harness's fake upstream
//   time.NewTimer/After   a timer that has already fired (its channel holds the current instant)
//   web.CompressWith*/DecompressWith*  identity
//   math/rand             constant 0.5 (back-off jitter is irrelevant to the properties)

func init() {
	externals["google.golang.org/protobuf/proto.Marshal"] = extProtoMarshal
	externals["google.golang.org/protobuf/proto.Unmarshal"] = extProtoUnmarshal
	externals["(*net/http.Client).Do"] = extClientDo
	externals["time.NewTimer"] = extNewTimer
	externals["time.NewTicker"] = extNewTicker
	externals["(*time.Ticker).Stop"] = func(fr *frame, a []value) value { return nil }
	externals["(*time.Ticker).Reset"] = func(fr *frame, a []value) value { return nil }
	externals["(*time.Timer).Stop"] = func(fr *frame, a []value) value { return true }
	externals["(*time.Timer).Reset"] = func(fr *frame, a []value) value { return true }
	externals["time.After"] = func(fr *frame, a []value) value {
		t := extNewTimer(fr, a).(*value)
		return (*t).(structure)[0]
	}
	externals["(*github.com/tilinna/clock.Timer).Stop"] = func(fr *frame, a []value) value { return true }
	externals["(*github.com/tilinna/clock.Ticker).Stop"] = nop
	// context.WithTimeout / WithDeadline: a cancellable context whose deadline never fires
	withCancel := func(fr *frame, a []value) value {
		pkg := fr.i.prog.ImportedPackage("context")
		return call(fr.i, fr, token.NoPos, pkg.Func("WithCancel"), []value{a[0]})
	}
	externals["context.WithTimeout"] = withCancel
	externals["context.WithDeadline"] = withCancel
	externals["time.runtimeNano"] = func(fr *frame, a []value) value { return int64(0) }
	externals["math/rand.Float64"] = func(fr *frame, a []value) value { return float64(0.5) }
	externals["math/rand.Int63"] = func(fr *frame, a []value) value { return int64(4) }
	externals["math/rand.Intn"] = func(fr *frame, a []value) value { return int(0) }
	externals["github.com/atlassian/gostatsd/pkg/web.CompressWithZlib"] = extCompressIdentity
	externals["github.com/atlassian/gostatsd/pkg/web.CompressWithLz4"] = extCompressIdentity
	externals["github.com/atlassian/gostatsd/pkg/web.DecompressWithZlib"] = func(fr *frame, a []value) value { return tuple{a[0], iface{}} }
	externals["github.com/atlassian/gostatsd/pkg/web.DecompressWithLz4"] = func(fr *frame, a []value) value { return tuple{a[0], iface{}} }
}

func collectStrings(v value, depth int, out *[]value) {
	if depth > 8 {
		return
	}
	switch x := v.(type) {
	case string, *SymStr:
		*out = append(*out, x)
	case structure:
		for _, f := range x {
			collectStrings(f, depth+1, out)
		}
	case array:
		for _, f := range x {
			collectStrings(f, depth+1, out)
		}
	case []value:
		for _, f := range x {
			collectStrings(f, depth+1, out)
		}
	case *value:
		if x != nil {
			collectStrings(*x, depth+1, out)
		}
	case iface:
		collectStrings(x.v, depth+1, out)
	case *smap:
		if x != nil {
			for _, e := range x.entries {
				if !e.deleted {
					collectStrings(e.k, depth+1, out)
					collectStrings(e.v, depth+1, out)
				}
			}
		}
	}
}

func extProtoMarshal(fr *frame, a []value) value {
	i := fr.i
	c := i.ctx
	msg := a[0].(iface)
	var strs []value
	collectStrings(msg.v, 0, &strs)
	pkg := i.prog.ImportedPackage("unicode/utf8")
	if pkg == nil {
		c.end("UNSUPPORTED", "unicode/utf8 not loaded")
	}
	valid := pkg.Func("ValidString")
	for _, s := range strs {
		r := call(i, fr, token.NoPos, valid, []value{s})
		ok := false
		switch rv := r.(type) {
		case bool:
			ok = rv
		case *Sym:
			ok = c.Branch(rv.T)
		}
		if !ok {
			return tuple{[]value(nil), fr.errorValue("proto: field contains invalid UTF-8")}
		}
	}
	i.protoSeq++
	h := fmt.Sprintf("PB#%05d", i.protoSeq)
	i.protoMsgs[h] = msg
	return tuple{strBytes(h), iface{}}
}

func extProtoUnmarshal(fr *frame, a []value) value {
	i := fr.i
	bs, _ := a[0].([]value)
	hb := make([]byte, 0, len(bs))
	for _, b := range bs {
		cb, ok := b.(byte)
		if !ok {
			return fr.errorValue("proto: cannot parse (symbolic body)")
		}
		hb = append(hb, cb)
	}
	if len(hb) == 0 {
		return iface{} // an empty body decodes to the empty message
	}
	src, ok := i.protoMsgs[string(hb)]
	if !ok {
		return fr.errorValue("proto: cannot parse invalid wire-format data")
	}
	dst := a[1].(iface)
	if !types.Identical(dst.t, src.t) {
		return fr.errorValue("proto: message type mismatch")
	}
	dp, sp := dst.v.(*value), src.v.(*value)
	*dp = deepCopy(*sp, 0)
	return iface{}
}

// deepCopy copies a message value (the receiver must not alias the sender's objects).
func deepCopy(v value, depth int) value {
	if depth > 12 {
		return v
	}
	switch x := v.(type) {
	case structure:
		o := make(structure, len(x))
		for k := range x {
			o[k] = deepCopy(x[k], depth+1)
		}
		return o
	case array:
		o := make(array, len(x))
		for k := range x {
			o[k] = deepCopy(x[k], depth+1)
		}
		return o
	case []value:
		if x == nil {
			return x
		}
		o := make([]value, len(x))
		for k := range x {
			o[k] = deepCopy(x[k], depth+1)
		}
		return o
	case *value:
		if x == nil {
			return x
		}
		var cell value = deepCopy(*x, depth+1)
		return &cell
	case *smap:
		if x == nil {
			return x
		}
		o := makeMap(x.kt)
		for _, e := range x.entries {
			if e.deleted {
				continue
			}
			ne := &mentry{k: deepCopy(e.k, depth+1), v: deepCopy(e.v, depth+1)}
			if h, ok := keyIndexable(ne.k); ok {
				o.idx[h] = ne
				ne.indexed = true
			} else {
				o.nsym++
			}
			o.entries = append(o.entries, ne)
			o.n++
		}
		return o
	case iface:
		return iface{t: x.t, v: deepCopy(x.v, depth+1)}
	}
	return v
}

func extClientDo(fr *frame, a []value) value {
	i := fr.i
	cl := (*a[0].(*value)).(structure)
	// type Client struct { Transport RoundTripper; CheckRedirect; Jar; Timeout }
	tr := cl[0].(iface)
	if tr.t == nil {
		i.ctx.end("UNSUPPORTED", "http.Client.Do without a harness Transport")
	}
	m := i.safeLookup(tr.t, "RoundTrip")
	if m == nil {
		i.ctx.end("UNSUPPORTED", "Transport has no RoundTrip")
	}
	return call(i, fr, token.NoPos, m, []value{tr.v, a[1]})
}

func extNewTimer(fr *frame, a []value) value {
	i := fr.i
	i.chanSeq++
	ch := &channel{cap: 1, id: i.chanSeq}
	if i.manualTimers {
		// the harness controls time: the timer stays pending until the harness advances time
		// (verifAdvanceTime); natively that is a sleep longer than the timer
		i.pendingTimers = append(i.pendingTimers, ch)
		var cell value = structure{ch, false}
		return &cell
	}
	ch.buf = append(ch.buf, extTimeNow(fr, nil))
	// type Timer struct { C <-chan Time; initTimer bool }
	var cell value = structure{ch, false}
	return &cell
}

// time.NewTicker: under harness-owned time (verifTimersManual) the ticker delivers one tick per
// verifAdvanceTime, as long as its channel (capacity 1, like the runtime's) is empty; without
// harness-owned time it never ticks (a ticker that is always ready would spin its consumer).
func extNewTicker(fr *frame, a []value) value {
	i := fr.i
	i.chanSeq++
	ch := &channel{cap: 1, id: i.chanSeq}
	if i.manualTimers {
		i.pendingTickers = append(i.pendingTickers, ch)
	}
	// type Ticker struct { C <-chan Time; initTicker bool }
	var cell value = structure{ch, false}
	return &cell
}

func extCompressIdentity(fr *frame, a []value) value {
	// func CompressWithX(in []byte, out io.Writer, level int) error
	fr.writeTo(a[1], a[0].([]value))
	return iface{}
}

// utf8ValidTerm builds the condition "bs is valid UTF-8" (RFC 3629 / unicode/utf8.Valid) as a
// single term over the byte terms, without control flow on symbolic data.
func (c *Ctx) utf8ValidTerm(bs []value) *sym.Term {
	b := c.B
	n := len(bs)
	in := func(x *sym.Term, lo, hi int) *sym.Term {
		if c.Mode == Math {
			return b.And(b.IntCmp("<=", b.IntC64(int64(lo)), x), b.IntCmp("<=", x, b.IntC64(int64(hi))))
		}
		return b.And(b.BVCmp("bvule", b.BVC(uint64(lo), 8), x), b.BVCmp("bvule", x, b.BVC(uint64(hi), 8)))
	}
	valid := make([]*sym.Term, n+5)
	for i := range valid {
		valid[i] = b.False
	}
	valid[n] = b.True
	t := func(i int) *sym.Term {
		if i < n {
			return c.byteTerm(bs[i])
		}
		return nil
	}
	for i := n - 1; i >= 0; i-- {
		x := t(i)
		alts := []*sym.Term{b.And(in(x, 0x00, 0x7f), valid[i+1])}
		if i+1 < n {
			alts = append(alts, b.And(in(x, 0xc2, 0xdf), in(t(i+1), 0x80, 0xbf), valid[i+2]))
		}
		if i+2 < n {
			c2 := in(t(i+2), 0x80, 0xbf)
			alts = append(alts,
				b.And(in(x, 0xe0, 0xe0), in(t(i+1), 0xa0, 0xbf), c2, valid[i+3]),
				b.And(in(x, 0xe1, 0xec), in(t(i+1), 0x80, 0xbf), c2, valid[i+3]),
				b.And(in(x, 0xed, 0xed), in(t(i+1), 0x80, 0x9f), c2, valid[i+3]),
				b.And(in(x, 0xee, 0xef), in(t(i+1), 0x80, 0xbf), c2, valid[i+3]))
		}
		if i+3 < n {
			c2, c3 := in(t(i+2), 0x80, 0xbf), in(t(i+3), 0x80, 0xbf)
			alts = append(alts,
				b.And(in(x, 0xf0, 0xf0), in(t(i+1), 0x90, 0xbf), c2, c3, valid[i+4]),
				b.And(in(x, 0xf1, 0xf3), in(t(i+1), 0x80, 0xbf), c2, c3, valid[i+4]),
				b.And(in(x, 0xf4, 0xf4), in(t(i+1), 0x80, 0x8f), c2, c3, valid[i+4]))
		}
		valid[i] = b.Or(alts...)
	}
	return valid[0]
}

func init() {
	// unicode/utf8.ValidString / Valid on symbolic data: one formula instead of table lookups
	f := func(fr *frame, a []value) value {
		c := fr.i.ctx
		var bs []value
		if isString(a[0]) {
			if s, ok := a[0].(string); ok {
				return utf8ValidGo(s)
			}
			bs = strBytes(a[0])
		} else {
			bs = a[0].([]value)
		}
		return c.mkval(c.utf8ValidTerm(bs), types.Bool)
	}
	externals["unicode/utf8.ValidString"] = f
	externals["unicode/utf8.Valid"] = f
	// strings.ToValidUTF8 on a symbolic string: contract stub - the result is SOME valid UTF-8
	// string; the engine returns the replacement alone (the exact result is not modelled).
	externals["strings.ToValidUTF8"] = func(fr *frame, a []value) value {
		if s, ok := a[0].(string); ok {
			if r, ok2 := a[1].(string); ok2 {
				return stringsToValidUTF8(s, r)
			}
		}
		fr.i.ctx.opaqueUsed = true
		return a[1]
	}
}

// JSON leaves (the HTTP backends' payload encoders are reflection based):
//
//   encoding/json.Marshal(v)                     returns an 8-byte handle "JS#nnnnn", never fails
//   jsoniter.Config.Froze()                      an inert API object
//   api.BorrowStream(w) / stream.WriteVal(v) / stream.Flush() / api.ReturnStream(stream)
//                                                Flush writes the handle of the value to w
//
// The encoded text is not the subject of any claimed property; what matters is that a body is
// produced, is distinct per value, and goes through the real request/retry code.
func init() {
	externals["encoding/json.Marshal"] = func(fr *frame, a []value) value {
		fr.i.protoSeq++
		return tuple{strBytes(fmt.Sprintf("JS#%05d", fr.i.protoSeq)), iface{}}
	}
	const jp = "github.com/json-iterator/go"
	jsonType := func(fr *frame, name string) types.Type {
		pkg := fr.i.prog.ImportedPackage(jp)
		if pkg == nil || pkg.Type(name) == nil {
			fr.i.ctx.end("UNSUPPORTED", "jsoniter type %s not loaded", name)
		}
		return pkg.Type(name).Type()
	}
	externals["("+jp+".Config).Froze"] = func(fr *frame, a []value) value {
		t := jsonType(fr, "frozenConfig")
		cell := zero(t)
		return iface{t: types.NewPointer(t), v: &cell}
	}
	externals["(*"+jp+".frozenConfig).BorrowStream"] = func(fr *frame, a []value) value {
		cell := zero(jsonType(fr, "Stream"))
		p := &cell
		if fr.i.jsonStreams == nil {
			fr.i.jsonStreams = map[*value]*jsonStream{}
		}
		fr.i.jsonStreams[p] = &jsonStream{w: a[1]}
		return p
	}
	externals["(*"+jp+".frozenConfig).ReturnStream"] = nop
	externals["(*"+jp+".Stream).WriteVal"] = func(fr *frame, a []value) value {
		if st := fr.i.jsonStreams[a[0].(*value)]; st != nil {
			st.vals++
		}
		return nil
	}
	externals["(*"+jp+".Stream).Flush"] = func(fr *frame, a []value) value {
		st := fr.i.jsonStreams[a[0].(*value)]
		if st == nil {
			fr.i.ctx.end("UNSUPPORTED", "jsoniter stream not from BorrowStream")
		}
		fr.i.protoSeq++
		fr.writeTo(st.w, strBytes(fmt.Sprintf("JS#%05d", fr.i.protoSeq)))
		return iface{}
	}
}

type jsonStream struct {
	w    value
	vals int
}

// errors.As without reflection: walks the Unwrap chain; a link matches when its dynamic type
// is identical to the target's element type (or implements it when that is an interface).
// `As(any) bool` methods and multi-error Unwrap() []error are not consulted.
func init() {
	externals["errors.As"] = func(fr *frame, a []value) value {
		i := fr.i
		tgt, _ := a[1].(iface)
		if tgt.t == nil {
			i.ctx.runtimeError(fr, "errors: target cannot be nil")
		}
		pt, ok := tgt.t.Underlying().(*types.Pointer)
		if !ok {
			i.ctx.runtimeError(fr, "errors: target must be a non-nil pointer")
		}
		want := pt.Elem()
		cur, _ := a[0].(iface)
		for depth := 0; cur.t != nil && depth < 16; depth++ {
			match := types.Identical(cur.t, want)
			if it, isI := want.Underlying().(*types.Interface); isI && !match {
				match = types.Implements(cur.t, it)
			}
			if match {
				cell := tgt.v.(*value)
				if _, isI := want.Underlying().(*types.Interface); isI {
					*cell = cur
				} else {
					*cell = cur.v
				}
				return true
			}
			m := i.safeLookup(cur.t, "Unwrap")
			if m == nil || m.Signature.Results().Len() != 1 {
				return false
			}
			if _, isI := m.Signature.Results().At(0).Type().Underlying().(*types.Interface); !isI {
				return false
			}
			next, _ := call(i, fr, token.NoPos, m, []value{cur.v}).(iface)
			cur = next
		}
		return false
	}
}

func init() {
	externals["runtime/debug.Stack"] = func(fr *frame, a []value) value { return strBytes("goroutine 1 [running]:\nverif\n") }
}

func init() {
	// net.IP.String goes through net/netip (package state built with unique / abi tricks):
	// executed natively for concrete addresses
	externals["(net.IP).String"] = func(fr *frame, a []value) value {
		bs, ok := concreteBytes(a[0])
		if !ok {
			fr.i.ctx.end("UNSUPPORTED", "net.IP.String of a symbolic address")
		}
		return net.IP(bs).String()
	}
}
