// Derived from golang.org/x/tools/go/ssa/interp (BSD-style licence, see LICENSE.x-tools).
// Extended with symbolic scalars, symbolic strings, association-list maps and modelled
// channels for the symx engine.

package interp

import (
	"bytes"
	"fmt"
	"go/types"
	"strings"
	"unsafe"

	"golang.org/x/tools/go/ssa"

	"symx/sym"
)

type value interface{}

type tuple []value

type array []value

type iface struct {
	t types.Type // never an "untyped" type
	v value
}

type structure []value

type iter interface {
	next(fr *frame) tuple
}

type closure struct {
	Fn  *ssa.Function
	Env []value
}

// boundIntrinsic is a Go-implemented function value (used for stubs that must be first-class).
type hostFunc struct {
	name string
	fn   func(fr *frame, args []value) value
}

type bad struct{}

type rtype struct {
	t types.Type
}

// Sym is a symbolic scalar: a term plus the Go basic kind it inhabits.
type Sym struct {
	T *sym.Term
	K types.BasicKind
}

// SymStr is a string at least one byte of which is symbolic. Immutable. Elements are
// byte or *Sym of kind Uint8.
type SymStr struct {
	B []value
}

// channel is a modelled FIFO channel.
type channel struct {
	buf    []value
	cap    int
	closed bool
	id     int
	sink   func(fr *frame, v value) // if set, sends are delivered here (always ready)
	unboundedSink bool
	recvWaiters   int
	// scripted: if non-nil, called when a receive finds the buffer empty, to let a harness
	// environment produce a value on demand.
}

// ---------------------------------------------------------------------------------------
// kinds

func normKind(k types.BasicKind) types.BasicKind {
	switch k {
	case types.UntypedBool:
		return types.Bool
	case types.UntypedInt:
		return types.Int
	case types.UntypedRune:
		return types.Int32
	case types.UntypedFloat:
		return types.Float64
	}
	return k
}

func kindWidth(k types.BasicKind) int {
	switch k {
	case types.Int8, types.Uint8:
		return 8
	case types.Int16, types.Uint16:
		return 16
	case types.Int32, types.Uint32:
		return 32
	case types.Int, types.Int64, types.Uint, types.Uint64, types.Uintptr:
		return 64
	}
	panic(fmt.Sprintf("kindWidth: not an integer kind %v", k))
}

func kindSigned(k types.BasicKind) bool {
	switch k {
	case types.Int, types.Int8, types.Int16, types.Int32, types.Int64:
		return true
	}
	return false
}

func kindIsInt(k types.BasicKind) bool {
	switch k {
	case types.Int, types.Int8, types.Int16, types.Int32, types.Int64,
		types.Uint, types.Uint8, types.Uint16, types.Uint32, types.Uint64, types.Uintptr:
		return true
	}
	return false
}

func kindIsFloat(k types.BasicKind) bool { return k == types.Float32 || k == types.Float64 }

func kindOfValue(x value) types.BasicKind {
	switch x := x.(type) {
	case bool:
		return types.Bool
	case int:
		return types.Int
	case int8:
		return types.Int8
	case int16:
		return types.Int16
	case int32:
		return types.Int32
	case int64:
		return types.Int64
	case uint:
		return types.Uint
	case uint8:
		return types.Uint8
	case uint16:
		return types.Uint16
	case uint32:
		return types.Uint32
	case uint64:
		return types.Uint64
	case uintptr:
		return types.Uintptr
	case float32:
		return types.Float32
	case float64:
		return types.Float64
	case *Sym:
		return x.K
	}
	return types.Invalid
}

func basicKindOfType(t types.Type) types.BasicKind {
	if b, ok := t.Underlying().(*types.Basic); ok {
		return normKind(b.Kind())
	}
	return types.Invalid
}

// nativeOfKind converts raw bits to the native Go value of kind k.
func nativeOfKind(k types.BasicKind, bits uint64) value {
	switch k {
	case types.Bool:
		return bits != 0
	case types.Int:
		return int(bits)
	case types.Int8:
		return int8(bits)
	case types.Int16:
		return int16(bits)
	case types.Int32:
		return int32(bits)
	case types.Int64:
		return int64(bits)
	case types.Uint:
		return uint(bits)
	case types.Uint8:
		return uint8(bits)
	case types.Uint16:
		return uint16(bits)
	case types.Uint32:
		return uint32(bits)
	case types.Uint64:
		return uint64(bits)
	case types.Uintptr:
		return uintptr(bits)
	}
	panic(fmt.Sprintf("nativeOfKind %v", k))
}

// rawBits returns the two's complement bits (zero-extended from the kind's width) of a
// concrete integer or bool value.
func rawBits(x value) uint64 {
	switch x := x.(type) {
	case bool:
		if x {
			return 1
		}
		return 0
	case int:
		return uint64(x)
	case int8:
		return uint64(uint8(x))
	case int16:
		return uint64(uint16(x))
	case int32:
		return uint64(uint32(x))
	case int64:
		return uint64(x)
	case uint:
		return uint64(x)
	case uint8:
		return uint64(x)
	case uint16:
		return uint64(x)
	case uint32:
		return uint64(x)
	case uint64:
		return x
	case uintptr:
		return uint64(x)
	}
	panic(fmt.Sprintf("rawBits: %T", x))
}

// ---------------------------------------------------------------------------------------
// hashing of concrete keys (fast index for maps)

func hashableConcrete(x value) (interface{}, bool) {
	switch x := x.(type) {
	case bool, int, int8, int16, int32, int64, uint, uint8, uint16, uint32, uint64, uintptr, float32, float64, string:
		return x, true
	case *value:
		return x, true
	case *channel:
		return x, true
	}
	return nil, false
}

func sameType(x, y types.Type) bool {
	if x == nil {
		return y == nil
	}
	return y != nil && types.Identical(x, y)
}

// ---------------------------------------------------------------------------------------
// load / store (struct and array values are copied)

func load(T types.Type, addr *value) value {
	switch T := T.Underlying().(type) {
	case *types.Struct:
		v := (*addr).(structure)
		a := make(structure, len(v))
		for i := range a {
			a[i] = load(T.Field(i).Type(), &v[i])
		}
		return a
	case *types.Array:
		v := (*addr).(array)
		a := make(array, len(v))
		for i := range a {
			a[i] = load(T.Elem(), &v[i])
		}
		return a
	default:
		return *addr
	}
}

func store(T types.Type, addr *value, v value) {
	switch T := T.Underlying().(type) {
	case *types.Struct:
		lhs := (*addr).(structure)
		rhs := v.(structure)
		for i := range lhs {
			store(T.Field(i).Type(), &lhs[i], rhs[i])
		}
	case *types.Array:
		lhs := (*addr).(array)
		rhs := v.(array)
		for i := range lhs {
			store(T.Elem(), &lhs[i], rhs[i])
		}
	default:
		*addr = v
	}
}

// copyVal makes an unaliased copy of a struct/array value (others are immutable or references).
func copyVal(v value) value {
	switch v := v.(type) {
	case structure:
		a := make(structure, len(v))
		for i := range v {
			a[i] = copyVal(v[i])
		}
		return a
	case array:
		a := make(array, len(v))
		for i := range v {
			a[i] = copyVal(v[i])
		}
		return a
	}
	return v
}

// ---------------------------------------------------------------------------------------
// printing

func writeValue(buf *bytes.Buffer, v value, depth int) {
	if depth > 6 {
		buf.WriteString("...")
		return
	}
	switch v := v.(type) {
	case nil, bool, int, int8, int16, int32, int64, uint, uint8, uint16, uint32, uint64, uintptr, float32, float64, complex64, complex128:
		fmt.Fprintf(buf, "%v", v)
	case string:
		fmt.Fprintf(buf, "%q", v)
	case *Sym:
		fmt.Fprintf(buf, "sym<%s>", sym.Ref(v.T))
	case *SymStr:
		buf.WriteString("symstr[")
		for _, b := range v.B {
			if c, ok := b.(byte); ok {
				if c >= 32 && c < 127 {
					buf.WriteByte(c)
				} else {
					fmt.Fprintf(buf, "\\x%02x", c)
				}
			} else {
				buf.WriteString("?")
			}
		}
		buf.WriteString("]")
	case *smap:
		buf.WriteString("map[")
		sep := ""
		if v != nil {
			for _, e := range v.entries {
				if e.deleted {
					continue
				}
				buf.WriteString(sep)
				sep = " "
				writeValue(buf, e.k, depth+1)
				buf.WriteString(":")
				writeValue(buf, e.v, depth+1)
			}
		}
		buf.WriteString("]")
	case *channel:
		fmt.Fprintf(buf, "chan#%p", v)
	case *value:
		if v == nil {
			buf.WriteString("<nil>")
		} else {
			fmt.Fprintf(buf, "%p", v)
		}
	case iface:
		fmt.Fprintf(buf, "(%s, ", v.t)
		writeValue(buf, v.v, depth+1)
		buf.WriteString(")")
	case structure:
		buf.WriteString("{")
		for i, e := range v {
			if i > 0 {
				buf.WriteString(" ")
			}
			writeValue(buf, e, depth+1)
		}
		buf.WriteString("}")
	case array:
		buf.WriteString("[")
		for i, e := range v {
			if i > 0 {
				buf.WriteString(" ")
			}
			writeValue(buf, e, depth+1)
		}
		buf.WriteString("]")
	case []value:
		buf.WriteString("[")
		for i, e := range v {
			if i > 0 {
				buf.WriteString(" ")
			}
			writeValue(buf, e, depth+1)
		}
		buf.WriteString("]")
	case *ssa.Function, *ssa.Builtin, *closure:
		fmt.Fprintf(buf, "%p", v) // (an address)
	case rtype:
		buf.WriteString(v.t.String())
	case tuple:
		buf.WriteString("(")
		for i, e := range v {
			if i > 0 {
				buf.WriteString(", ")
			}
			writeValue(buf, e, depth+1)
		}
		buf.WriteString(")")
	default:
		fmt.Fprintf(buf, "<%T>", v)
	}
}

func toString(v value) string {
	var b bytes.Buffer
	writeValue(&b, v, 0)
	return b.String()
}

// ---------------------------------------------------------------------------------------
// strings

// strBytes returns the bytes of a (concrete or symbolic) string as values.
func strBytes(x value) []value {
	switch x := x.(type) {
	case string:
		out := make([]value, len(x))
		for i := 0; i < len(x); i++ {
			out[i] = x[i]
		}
		return out
	case *SymStr:
		return x.B
	}
	panic(fmt.Sprintf("strBytes: %T", x))
}

func strLen(x value) int {
	switch x := x.(type) {
	case string:
		return len(x)
	case *SymStr:
		return len(x.B)
	}
	panic(fmt.Sprintf("strLen: %T", x))
}

// mkString builds a string value from byte values, concrete if every byte is.
func mkString(bs []value) value {
	conc := true
	for _, b := range bs {
		if _, ok := b.(byte); !ok {
			conc = false
			break
		}
	}
	if conc {
		var sb strings.Builder
		sb.Grow(len(bs))
		for _, b := range bs {
			sb.WriteByte(b.(byte))
		}
		return sb.String()
	}
	cp := make([]value, len(bs))
	copy(cp, bs)
	return &SymStr{B: cp}
}

func isString(x value) bool {
	switch x.(type) {
	case string, *SymStr:
		return true
	}
	return false
}

var _ = unsafe.Pointer(nil)
