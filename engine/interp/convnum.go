package interp

import (
	"fmt"
	"go/types"
)

// concConvNum converts a widened concrete numeric value to basic kind `kind`.
func concConvNum(x value, kind types.BasicKind) value {
	x = widen(x)
	switch x := x.(type) {
			case int64: // signed integer -> numeric?
				switch kind {
				case types.Int:
					return int(x)
				case types.Int8:
					return int8(x)
				case types.Int16:
					return int16(x)
				case types.Int32:
					return int32(x)
				case types.Int64:
					return int64(x)
				case types.Uint:
					return uint(x)
				case types.Uint8:
					return uint8(x)
				case types.Uint16:
					return uint16(x)
				case types.Uint32:
					return uint32(x)
				case types.Uint64:
					return uint64(x)
				case types.Uintptr:
					return uintptr(x)
				case types.Float32:
					return float32(x)
				case types.Float64:
					return float64(x)
				}

			case uint64: // unsigned integer -> numeric?
				switch kind {
				case types.Int:
					return int(x)
				case types.Int8:
					return int8(x)
				case types.Int16:
					return int16(x)
				case types.Int32:
					return int32(x)
				case types.Int64:
					return int64(x)
				case types.Uint:
					return uint(x)
				case types.Uint8:
					return uint8(x)
				case types.Uint16:
					return uint16(x)
				case types.Uint32:
					return uint32(x)
				case types.Uint64:
					return uint64(x)
				case types.Uintptr:
					return uintptr(x)
				case types.Float32:
					return float32(x)
				case types.Float64:
					return float64(x)
				}

			case float64: // floating point -> numeric?
				switch kind {
				case types.Int:
					return int(x)
				case types.Int8:
					return int8(x)
				case types.Int16:
					return int16(x)
				case types.Int32:
					return int32(x)
				case types.Int64:
					return int64(x)
				case types.Uint:
					return uint(x)
				case types.Uint8:
					return uint8(x)
				case types.Uint16:
					return uint16(x)
				case types.Uint32:
					return uint32(x)
				case types.Uint64:
					return uint64(x)
				case types.Uintptr:
					return uintptr(x)
				case types.Float32:
					return float32(x)
				case types.Float64:
					return float64(x)
				}
			}
	panic(fmt.Sprintf("concConvNum: %T -> %v", x, kind))
}
