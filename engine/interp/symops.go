package interp

import (
	"fmt"
	"go/token"
	"go/types"
	"math"
	"math/big"

	"symx/sym"
)

// termOf converts a scalar value (concrete or symbolic) to a term in the current mode.
func (c *Ctx) termOf(x value) *sym.Term {
	switch x := x.(type) {
	case *Sym:
		return x.T
	case bool:
		return c.B.BoolC(x)
	case float64:
		if c.Mode == Math {
			if math.IsNaN(x) || math.IsInf(x, 0) {
				c.end("UNSUPPORTED", "non-finite float constant in math mode")
			}
			return c.B.RealF(x)
		}
		return c.B.F64C(x)
	case float32:
		if c.Mode == Math {
			return c.B.RealF(float64(x))
		}
		return c.B.F32C(x)
	}
	k := kindOfValue(x)
	if !kindIsInt(k) {
		panic(fmt.Sprintf("termOf: unsupported %T", x))
	}
	if c.Mode == Math {
		if kindSigned(k) {
			return c.B.IntC64(asInt64(x))
		}
		return c.B.IntC(new(big.Int).SetUint64(rawBits(x)))
	}
	return c.B.BVC(rawBits(x), kindWidth(k))
}

// mkval wraps a term as a value of kind k, collapsing constants to native Go values.
func (c *Ctx) mkval(t *sym.Term, k types.BasicKind) value {
	if t.IsConst() {
		switch t.Sort.K {
		case sym.KBool:
			return t.Val != 0
		case sym.KBV:
			return nativeOfKind(k, t.Val)
		case sym.KFP64:
			return math.Float64frombits(t.Val)
		case sym.KFP32:
			return math.Float32frombits(uint32(t.Val))
		case sym.KInt:
			if kindIsInt(k) {
				if kindSigned(k) {
					return nativeOfKind(k, uint64(t.Big.Int64()))
				}
				return nativeOfKind(k, t.Big.Uint64())
			}
		case sym.KReal:
			f, exact := t.Rat.Float64()
			if exact {
				if k == types.Float32 {
					return float32(f)
				}
				return f
			}
		}
	}
	return &Sym{T: t, K: k}
}

func isSym(x value) bool { _, ok := x.(*Sym); return ok }

// wrapInt reduces a mathematical integer term to the range of kind k (math mode).
func (c *Ctx) wrapInt(t *sym.Term, k types.BasicKind) *sym.Term {
	lo, hi := kindRange(k)
	if t.Lo != nil && t.Hi != nil && t.Lo.Cmp(lo) >= 0 && t.Hi.Cmp(hi) <= 0 {
		return t
	}
	w := uint(kindWidth(k))
	m := c.B.IntC(new(big.Int).Lsh(big.NewInt(1), w))
	var r *sym.Term
	if kindSigned(k) {
		h := c.B.IntC(new(big.Int).Lsh(big.NewInt(1), w-1))
		r = c.B.IntSub(c.B.IntModE(c.B.IntAdd(t, h), m), h)
	} else {
		r = c.B.IntModE(t, m)
	}
	if r.Kind == sym.TApp {
		r.Lo, r.Hi = lo, hi
	}
	return r
}

func signKnown(t *sym.Term) int { // 1: >=0, -1: <0 , 0 unknown
	if t.Lo != nil && t.Lo.Sign() >= 0 {
		return 1
	}
	if t.Hi != nil && t.Hi.Sign() < 0 {
		return -1
	}
	return 0
}

// truncDiv encodes Go's truncated division over mathematical integers (y != 0 assumed).
func (c *Ctx) truncDiv(x, y *sym.Term) *sym.Term {
	b := c.B
	zero := b.IntC64(0)
	if signKnown(x) == 1 && y.Lo != nil && y.Lo.Sign() > 0 {
		q := b.IntDivE(x, y)
		if q.Kind == sym.TApp && x.Hi != nil {
			q.Lo, q.Hi = big.NewInt(0), x.Hi
		}
		return q
	}
	absx := b.Ite(b.IntCmp(">=", x, zero), x, b.IntNeg(x))
	absy := b.Ite(b.IntCmp(">=", y, zero), y, b.IntNeg(y))
	q := b.IntDivE(absx, absy)
	same := b.Eq(b.IntCmp(">=", x, zero), b.IntCmp(">=", y, zero))
	return b.Ite(same, q, b.IntNeg(q))
}

func (c *Ctx) runtimeError(fr *frame, msg string) {
	panic(targetPanic{v: iface{t: fr.i.runtimeErrorString, v: msg}, site: fr.site()})
}

// symBinop evaluates a binary operator when at least one scalar operand is symbolic.
func (c *Ctx) symBinop(fr *frame, op token.Token, x, y value) value {
	b := c.B
	kx, ky := kindOfValue(x), kindOfValue(y)
	k := kx
	if k == types.Invalid {
		k = ky
	}
	// shifts: operand kinds differ
	if op == token.SHL || op == token.SHR {
		return c.symShift(fr, op, x, y, kx, ky)
	}
	tx, ty := c.termOf(x), c.termOf(y)
	switch {
	case k == types.Bool:
		switch op {
		case token.EQL:
			return c.mkval(b.Eq(tx, ty), types.Bool)
		case token.NEQ:
			return c.mkval(b.Not(b.Eq(tx, ty)), types.Bool)
		case token.AND, token.LAND:
			return c.mkval(b.And(tx, ty), types.Bool)
		case token.OR, token.LOR:
			return c.mkval(b.Or(tx, ty), types.Bool)
		}
	case kindIsInt(k) && c.Mode == Machine:
		sg := kindSigned(k)
		switch op {
		case token.ADD:
			return c.mkval(b.BVBin("bvadd", tx, ty), k)
		case token.SUB:
			return c.mkval(b.BVBin("bvsub", tx, ty), k)
		case token.MUL:
			return c.mkval(b.BVBin("bvmul", tx, ty), k)
		case token.QUO, token.REM:
			nz := b.Not(b.Eq(ty, b.BVC(0, ty.Sort.W)))
			if !c.Require(nz, "integer divide by zero") {
				c.runtimeError(fr, "runtime error: integer divide by zero")
			}
			var h string
			switch {
			case op == token.QUO && sg:
				h = "bvsdiv"
			case op == token.QUO:
				h = "bvudiv"
			case sg:
				h = "bvsrem"
			default:
				h = "bvurem"
			}
			return c.mkval(b.BVBin(h, tx, ty), k)
		case token.AND:
			return c.mkval(b.BVBin("bvand", tx, ty), k)
		case token.OR:
			return c.mkval(b.BVBin("bvor", tx, ty), k)
		case token.XOR:
			return c.mkval(b.BVBin("bvxor", tx, ty), k)
		case token.AND_NOT:
			return c.mkval(b.BVBin("bvand", tx, b.BVNot(ty)), k)
		case token.EQL:
			return c.mkval(b.Eq(tx, ty), types.Bool)
		case token.NEQ:
			return c.mkval(b.Not(b.Eq(tx, ty)), types.Bool)
		case token.LSS, token.LEQ, token.GTR, token.GEQ:
			if op == token.GTR || op == token.GEQ {
				tx, ty = ty, tx
			}
			h := "bvult"
			switch {
			case (op == token.LSS || op == token.GTR) && sg:
				h = "bvslt"
			case (op == token.LEQ || op == token.GEQ) && sg:
				h = "bvsle"
			case op == token.LEQ || op == token.GEQ:
				h = "bvule"
			}
			return c.mkval(b.BVCmp(h, tx, ty), types.Bool)
		}
	case kindIsInt(k) && c.Mode == Math:
		switch op {
		case token.ADD:
			return c.mkval(c.wrapInt(b.IntAdd(tx, ty), k), k)
		case token.SUB:
			return c.mkval(c.wrapInt(b.IntSub(tx, ty), k), k)
		case token.MUL:
			return c.mkval(c.wrapInt(b.IntMul(tx, ty), k), k)
		case token.QUO, token.REM:
			nz := b.Not(b.Eq(ty, b.IntC64(0)))
			if !c.Require(nz, "integer divide by zero") {
				c.runtimeError(fr, "runtime error: integer divide by zero")
			}
			if op == token.REM && signKnown(tx) == 1 && ty.Lo != nil && ty.Lo.Sign() > 0 {
				// non-negative dividend, positive divisor: Go's % is the Euclidean mod
				return c.mkval(b.IntModE(tx, ty), k)
			}
			q := c.truncDiv(tx, ty)
			if op == token.QUO {
				return c.mkval(c.wrapInt(q, k), k)
			}
			r := b.IntSub(tx, b.IntMul(ty, q))
			if r.Kind == sym.TApp && ty.Lo != nil && ty.Hi != nil {
				a := new(big.Int).Abs(ty.Lo)
				if h := new(big.Int).Abs(ty.Hi); h.Cmp(a) > 0 {
					a = h
				}
				a = new(big.Int).Sub(a, big.NewInt(1))
				if signKnown(tx) == 1 {
					r.Lo, r.Hi = big.NewInt(0), a
				} else {
					r.Lo, r.Hi = new(big.Int).Neg(a), a
				}
			}
			return c.mkval(r, k)
		case token.EQL:
			return c.mkval(b.Eq(tx, ty), types.Bool)
		case token.NEQ:
			return c.mkval(b.Not(b.Eq(tx, ty)), types.Bool)
		case token.LSS:
			return c.mkval(b.IntCmp("<", tx, ty), types.Bool)
		case token.LEQ:
			return c.mkval(b.IntCmp("<=", tx, ty), types.Bool)
		case token.GTR:
			return c.mkval(b.IntCmp(">", tx, ty), types.Bool)
		case token.GEQ:
			return c.mkval(b.IntCmp(">=", tx, ty), types.Bool)
		case token.OR, token.XOR, token.ADD + 1000:
			// (x * 2^k) | y with 0 <= y < 2^k is x*2^k + y
			for pass := 0; pass < 2; pass++ {
				hi, lo := tx, ty
				if pass == 1 {
					hi, lo = ty, tx
				}
				if hi.Kind == sym.TApp && hi.Head == "*" && len(hi.Args) == 2 && lo.Lo != nil && lo.Lo.Sign() >= 0 && lo.Hi != nil {
					for _, a := range hi.Args {
						if a.IsConst() && a.Big.Sign() > 0 && new(big.Int).And(a.Big, new(big.Int).Sub(a.Big, big.NewInt(1))).Sign() == 0 && lo.Hi.Cmp(a.Big) < 0 {
							return c.mkval(c.wrapInt(b.IntAdd(hi, lo), k), k)
						}
					}
				}
			}
			if tx.IsConst() && tx.Big.Sign() == 0 {
				return c.mkval(ty, k)
			}
			if ty.IsConst() && ty.Big.Sign() == 0 {
				return c.mkval(tx, k)
			}
		case token.AND:
			// x & (2^n - 1) for non-negative x
			if ty.IsConst() && signKnown(tx) == 1 {
				m := new(big.Int).Add(ty.Big, big.NewInt(1))
				if m.BitLen() > 0 && new(big.Int).And(m, ty.Big).Sign() == 0 {
					return c.mkval(b.IntModE(tx, b.IntC(m)), k)
				}
			}
		}
		c.end("UNSUPPORTED", "math mode: integer operator %s", op)
	case kindIsFloat(k) && c.Mode == Machine:
		switch op {
		case token.ADD:
			return c.mkval(b.FPBin("fp.add", tx, ty), k)
		case token.SUB:
			return c.mkval(b.FPBin("fp.sub", tx, ty), k)
		case token.MUL:
			return c.mkval(b.FPBin("fp.mul", tx, ty), k)
		case token.QUO:
			return c.mkval(b.FPBin("fp.div", tx, ty), k)
		case token.EQL:
			return c.mkval(b.FPCmp("fp.eq", tx, ty), types.Bool)
		case token.NEQ:
			return c.mkval(b.Not(b.FPCmp("fp.eq", tx, ty)), types.Bool)
		case token.LSS:
			return c.mkval(b.FPCmp("fp.lt", tx, ty), types.Bool)
		case token.LEQ:
			return c.mkval(b.FPCmp("fp.leq", tx, ty), types.Bool)
		case token.GTR:
			return c.mkval(b.FPCmp("fp.gt", tx, ty), types.Bool)
		case token.GEQ:
			return c.mkval(b.FPCmp("fp.geq", tx, ty), types.Bool)
		}
	case kindIsFloat(k) && c.Mode == Math:
		switch op {
		case token.ADD:
			return c.mkval(b.RealBin("+", tx, ty), k)
		case token.SUB:
			return c.mkval(b.RealBin("-", tx, ty), k)
		case token.MUL:
			return c.mkval(b.RealBin("*", tx, ty), k)
		case token.QUO:
			// float division by zero yields Inf/NaN, which math mode excludes
			c.Assume(b.Not(b.Eq(ty, b.RealC(new(big.Rat)))))
			return c.mkval(b.RealBin("/", tx, ty), k)
		case token.EQL:
			return c.mkval(b.Eq(tx, ty), types.Bool)
		case token.NEQ:
			return c.mkval(b.Not(b.Eq(tx, ty)), types.Bool)
		case token.LSS:
			return c.mkval(b.RealCmp("<", tx, ty), types.Bool)
		case token.LEQ:
			return c.mkval(b.RealCmp("<=", tx, ty), types.Bool)
		case token.GTR:
			return c.mkval(b.RealCmp(">", tx, ty), types.Bool)
		case token.GEQ:
			return c.mkval(b.RealCmp(">=", tx, ty), types.Bool)
		}
	}
	c.end("UNSUPPORTED", "symbolic binop %s on kind %v", op, k)
	return nil
}

func (c *Ctx) symShift(fr *frame, op token.Token, x, y value, kx, ky types.BasicKind) value {
	b := c.B
	if c.Mode == Math {
		if !isSym(y) {
			n := asUint64Any(y)
			tx := c.termOf(x)
			p := b.IntC(new(big.Int).Lsh(big.NewInt(1), uint(n)))
			if op == token.SHL {
				return c.mkval(c.wrapInt(b.IntMul(tx, p), kx), kx)
			}
			// arithmetic shift right = floor division
			return c.mkval(b.IntDivE(tx, p), kx)
		}
		c.end("UNSUPPORTED", "math mode: symbolic shift count")
	}
	w := kindWidth(kx)
	tx := c.termOf(x)
	ty := c.termOf(y)
	if kindSigned(ky) {
		nonneg := b.Not(b.BVCmp("bvslt", ty, b.BVC(0, ty.Sort.W)))
		if !c.Require(nonneg, "negative shift amount") {
			c.runtimeError(fr, "runtime error: negative shift amount")
		}
	}
	// bring the count to width w, saturating
	wy := ty.Sort.W
	var cnt *sym.Term
	switch {
	case wy == w:
		cnt = ty
	case wy < w:
		cnt = b.ZExt(ty, w)
	default:
		big := b.BVCmp("bvule", b.BVC(uint64(w), wy), ty)
		cnt = b.Ite(big, b.BVC(uint64(w), w), b.Extract(w-1, 0, ty))
	}
	var h string
	switch {
	case op == token.SHL:
		h = "bvshl"
	case kindSigned(kx):
		h = "bvashr"
	default:
		h = "bvlshr"
	}
	return c.mkval(b.BVBin(h, tx, cnt), kx)
}

func asUint64Any(x value) uint64 { return rawBits(x) }

func (c *Ctx) symUnop(fr *frame, op token.Token, x *Sym) value {
	b := c.B
	switch op {
	case token.NOT:
		return c.mkval(b.Not(x.T), types.Bool)
	case token.SUB:
		switch {
		case kindIsInt(x.K) && c.Mode == Machine:
			return c.mkval(b.BVNeg(x.T), x.K)
		case kindIsInt(x.K):
			return c.mkval(c.wrapInt(b.IntNeg(x.T), x.K), x.K)
		case c.Mode == Machine:
			return c.mkval(b.FPUn("fp.neg", x.T), x.K)
		default:
			return c.mkval(b.RealBin("-", b.RealC(new(big.Rat)), x.T), x.K)
		}
	case token.XOR:
		if kindIsInt(x.K) && c.Mode == Machine {
			return c.mkval(b.BVNot(x.T), x.K)
		}
	}
	c.end("UNSUPPORTED", "symbolic unop %s kind %v", op, x.K)
	return nil
}

// symConv converts a symbolic scalar to another basic kind.
func (c *Ctx) symConv(fr *frame, x *Sym, to types.BasicKind) value {
	b := c.B
	from := x.K
	if from == to {
		return x
	}
	switch {
	case kindIsInt(from) && kindIsInt(to):
		if c.Mode == Math {
			return c.mkval(c.wrapInt(x.T, to), to)
		}
		wf, wt := kindWidth(from), kindWidth(to)
		switch {
		case wf == wt:
			return c.mkval(x.T, to)
		case wf > wt:
			return c.mkval(b.Extract(wt-1, 0, x.T), to)
		case kindSigned(from):
			return c.mkval(b.SExt(x.T, wt), to)
		default:
			return c.mkval(b.ZExt(x.T, wt), to)
		}
	case kindIsInt(from) && kindIsFloat(to):
		if c.Mode == Math {
			return c.mkval(b.ToReal(x.T), to)
		}
		so := sym.FP64
		if to == types.Float32 {
			so = sym.FP32
		}
		if kindSigned(from) {
			return c.mkval(b.FPFromSBV(x.T, so), to)
		}
		return c.mkval(b.FPFromUBV(x.T, so), to)
	case kindIsFloat(from) && kindIsFloat(to):
		if c.Mode == Math {
			return c.mkval(x.T, to)
		}
		so := sym.FP64
		if to == types.Float32 {
			so = sym.FP32
		}
		return c.mkval(b.FPFromFP(x.T, so), to)
	case kindIsFloat(from) && kindIsInt(to):
		if c.Mode == Math {
			if x.T.Kind == sym.TApp && x.T.Head == "to_real" {
				return c.mkval(c.wrapInt(x.T.Args[0], to), to)
			}
			zero := b.RealC(new(big.Rat))
			neg := b.RealBin("-", zero, x.T)
			tr := b.Ite(b.RealCmp(">=", x.T, zero), b.ToIntFloor(x.T), b.IntNeg(b.ToIntFloor(neg)))
			return c.mkval(c.wrapInt(tr, to), to)
		}
		wt := kindWidth(to)
		// amd64 semantics: CVTTSD2SQ yields 0x8000000000000000 ("integer indefinite") when the
		// value is NaN or out of the int64 range; narrower targets truncate that result.
		// Unsigned 64-bit targets use a two-step sequence; they are modelled for values in
		// [0, 2^63) exactly and otherwise via the signed path plus the compiler's adjustment.
		sbv := b.FPToSBV(x.T, 64)
		so := x.T.Sort
		var lo, hi *sym.Term
		if so.K == sym.KFP64 {
			lo = b.F64C(-9223372036854775808.0)
			hi = b.F64C(9223372036854775808.0)
		} else {
			lo = b.F32C(-9223372036854775808.0)
			hi = b.F32C(9223372036854775808.0)
		}
		inRange := b.And(b.FPCmp("fp.leq", lo, x.T), b.FPCmp("fp.lt", x.T, hi))
		indef := b.BVC(0x8000000000000000, 64)
		r64 := b.Ite(inRange, sbv, indef)
		if to == types.Uint64 || to == types.Uint || to == types.Uintptr {
			// Go's amd64 lowering for float->uint64: if x < 2^63 use the signed conversion,
			// else convert x-2^63 and flip the top bit.
			var sub *sym.Term
			if so.K == sym.KFP64 {
				sub = b.FPBin("fp.sub", x.T, hi)
			} else {
				sub = b.FPBin("fp.sub", x.T, hi)
			}
			sInRange := b.And(b.FPCmp("fp.leq", lo, sub), b.FPCmp("fp.lt", sub, hi))
			hiPart := b.BVBin("bvxor", b.Ite(sInRange, b.FPToSBV(sub, 64), indef), indef)
			r64 = b.Ite(b.FPCmp("fp.lt", x.T, hi), r64, hiPart)
			// NaN: comparison false -> hiPart path with NaN-2^63 = NaN -> indef^indef = 0? real
			// hardware gives 0x8000000000000000; make it explicit.
			r64 = b.Ite(b.FPPred("fp.isNaN", x.T), indef, r64)
		}
		if wt < 64 {
			return c.mkval(b.Extract(wt-1, 0, r64), to)
		}
		return c.mkval(r64, to)
	case from == types.Bool && to == types.Bool:
		return x
	}
	c.end("UNSUPPORTED", "symbolic conversion %v -> %v", from, to)
	return nil
}

// byteTerm returns the term of a byte value.
func (c *Ctx) byteTerm(x value) *sym.Term { return c.termOf(x) }

// strEq builds the equality condition of two strings (concrete or symbolic).
func (c *Ctx) strEq(x, y value) *sym.Term {
	if xs, ok := x.(string); ok {
		if ys, ok := y.(string); ok {
			return c.B.BoolC(xs == ys)
		}
	}
	if strLen(x) != strLen(y) {
		return c.B.False
	}
	xb, yb := strBytes(x), strBytes(y)
	return c.bytesEq(xb, yb)
}

func (c *Ctx) bytesEq(xb, yb []value) *sym.Term {
	if len(xb) != len(yb) {
		return c.B.False
	}
	var cs []*sym.Term
	for i := range xb {
		if a, ok := xb[i].(byte); ok {
			if bb, ok := yb[i].(byte); ok {
				if a != bb {
					return c.B.False
				}
				continue
			}
		}
		cs = append(cs, c.B.Eq(c.byteTerm(xb[i]), c.byteTerm(yb[i])))
	}
	return c.B.And(cs...)
}

func (c *Ctx) byteLess(x, y *sym.Term) *sym.Term {
	if c.Mode == Math {
		return c.B.IntCmp("<", x, y)
	}
	return c.B.BVCmp("bvult", x, y)
}

// strLess builds x < y (lexicographic, bytewise).
func (c *Ctx) strLess(x, y value) *sym.Term {
	xb, yb := strBytes(x), strBytes(y)
	n := len(xb)
	if len(yb) < n {
		n = len(yb)
	}
	res := c.B.BoolC(len(xb) < len(yb))
	for i := n - 1; i >= 0; i-- {
		a, bb := c.byteTerm(xb[i]), c.byteTerm(yb[i])
		res = c.B.Ite(c.byteLess(a, bb), c.B.True, c.B.Ite(c.B.Eq(a, bb), res, c.B.False))
	}
	return res
}

// eqv builds the condition "x == y" for values of static type t.
func (c *Ctx) eqv(t types.Type, x, y value) *sym.Term {
	switch xv := x.(type) {
	case *Sym:
		return c.scalarEq(x, y)
	case bool, int, int8, int16, int32, int64, uint, uint8, uint16, uint32, uint64, uintptr, float32, float64:
		if _, ok := y.(*Sym); ok {
			return c.scalarEq(x, y)
		}
		return c.B.BoolC(x == y)
	case complex64, complex128:
		return c.B.BoolC(x == y)
	case string, *SymStr:
		return c.strEq(x, y)
	case *value:
		return c.B.BoolC(xv == y.(*value))
	case *channel:
		return c.B.BoolC(xv == y.(*channel))
	case structure:
		yv := y.(structure)
		st := t.Underlying().(*types.Struct)
		var cs []*sym.Term
		for i := 0; i < st.NumFields(); i++ {
			f := st.Field(i)
			if f.Name() == "_" {
				continue
			}
			e := c.eqv(f.Type(), xv[i], yv[i])
			if e.IsFalse() {
				return e
			}
			cs = append(cs, e)
		}
		return c.B.And(cs...)
	case array:
		yv := y.(array)
		et := t.Underlying().(*types.Array).Elem()
		var cs []*sym.Term
		for i := range xv {
			e := c.eqv(et, xv[i], yv[i])
			if e.IsFalse() {
				return e
			}
			cs = append(cs, e)
		}
		return c.B.And(cs...)
	case iface:
		yv := y.(iface)
		if !sameType(xv.t, yv.t) {
			return c.B.False
		}
		if xv.t == nil {
			return c.B.True
		}
		if !types.Comparable(xv.t) {
			panic(targetPanic{v: iface{t: nil, v: "runtime error: comparing uncomparable type " + xv.t.String()}})
		}
		return c.eqv(xv.t, xv.v, yv.v)
	case rtype:
		return c.B.BoolC(types.Identical(xv.t, y.(rtype).t))
	case *ssaFuncRef:
		return c.B.BoolC(x == y)
	case unsafePtr:
		return c.B.BoolC(x == y)
	}
	panic(fmt.Sprintf("comparing uncomparable type %s (%T)", t, x))
}

func (c *Ctx) scalarEq(x, y value) *sym.Term {
	k := kindOfValue(x)
	if k == types.Invalid {
		k = kindOfValue(y)
	}
	tx, ty := c.termOf(x), c.termOf(y)
	if kindIsFloat(k) && c.Mode == Machine {
		return c.B.FPCmp("fp.eq", tx, ty)
	}
	return c.B.Eq(tx, ty)
}

type ssaFuncRef struct{}
type unsafePtr struct{ p interface{} }
