package interp

import (
	"fmt"
	"go/token"
	"go/types"
	"math"
	"math/big"
	"strconv"
	"strings"
	"sync"

	"symx/sym"
)

type externalFn func(fr *frame, args []value) value

var externals = make(map[string]externalFn)

func nop(fr *frame, args []value) value { return nil }

func init() {
	for k, v := range map[string]externalFn{
		// --- bytealg / bytes / strings leaves -------------------------------------------------
		"internal/bytealg.IndexByte":       extIndexByte,
		"internal/bytealg.IndexByteString": extIndexByte,
		"internal/bytealg.Count":           extCountByte,
		"internal/bytealg.CountString":     extCountByte,
		"internal/bytealg.Equal":           extBytesEqual,
		"internal/bytealg.Compare":         extCompare,
		"internal/bytealg.CompareString":   extCompare,
		"internal/bytealg.Index":           extIndex,
		"internal/bytealg.IndexString":     extIndex,
		"internal/bytealg.MakeNoZero":      extMakeNoZero,
		"bytes.IndexByte":                  extIndexByte,
		"strings.IndexByte":                extIndexByte,
		"bytes.Index":                      extIndex,
		"strings.Index":                    extIndex,
		"bytes.Equal":                      extBytesEqual,
		"bytes.Compare":                    extCompare,
		"strings.Compare":                  extCompare,
		"internal/stringslite.Index":       extIndex,
		"internal/stringslite.IndexByte":   extIndexByte,

		"(*strings.Builder).String":    extBuilderString,
		"(*strings.Builder).copyCheck": nop,
		"unique.Make":                  nil,

		// --- math ------------------------------------------------------------------------------
		"math.Float64bits":     extFloat64bits,
		"math.Float64frombits": extFloat64frombits,
		"math.Float32bits":     func(fr *frame, a []value) value { return math.Float32bits(a[0].(float32)) },
		"math.Float32frombits": func(fr *frame, a []value) value { return math.Float32frombits(a[0].(uint32)) },
		"math.Abs":             extMathAbs,
		"math.Floor":           extMathRound("RTN", math.Floor),
		"math.Ceil":            extMathRound("RTP", math.Ceil),
		"math.Trunc":           extMathRound("RTZ", math.Trunc),
		"math.RoundToEven":     extMathRound("RNE", math.RoundToEven),
		"math.Round":           extMathRound("RNA", math.Round),
		"math.Sqrt":            extMathSqrt,
		"math.IsNaN":           extMathIsNaN,
		"math.IsInf":           extMathIsInf,
		"math.Inf":             func(fr *frame, a []value) value { return math.Inf(int(asInt64(a[0]))) },
		"math.NaN":             func(fr *frame, a []value) value { return math.NaN() },
		"math.Max":             extMathMinMax(false),
		"math.Min":             extMathMinMax(true),
		"math.Mod":             conc2(math.Mod),
		"math.Pow":             conc2(math.Pow),
		"math.Log":             conc1(math.Log),
		"math.Log2":            conc1(math.Log2),
		"math.Log10":           conc1(math.Log10),
		"math.Exp":             conc1(math.Exp),
		"math.Copysign":        conc2(math.Copysign),
		"math.Signbit":         func(fr *frame, a []value) value { return math.Signbit(concF(fr, a[0])) },

		// --- sync ------------------------------------------------------------------------------
		"(*sync.Mutex).Lock":      nop,
		"(*sync.Mutex).Unlock":    nop,
		"(*sync.Mutex).TryLock":   func(fr *frame, a []value) value { return true },
		"(*sync.RWMutex).Lock":    nop,
		"(*sync.RWMutex).Unlock":  nop,
		"(*sync.RWMutex).RLock":   nop,
		"(*sync.RWMutex).RUnlock": nop,
		"(*sync.Once).Do":         extOnceDo,
		"(*sync.WaitGroup).Add":   extWgAdd,
		"(*sync.WaitGroup).Done":  func(fr *frame, a []value) value { return extWgAdd(fr, []value{a[0], int(-1)}) },
		"(*sync.WaitGroup).Wait":  extWgWait,
		"(*sync.Pool).Get":        extPoolGet,
		"(*sync.Pool).Put":        extPoolPut,

		// --- runtime ---------------------------------------------------------------------------
		"runtime.KeepAlive":    nop,
		"runtime.SetFinalizer": nop,
		"runtime.Gosched":      nop,
		"runtime.GC":           nop,
		"runtime.GOMAXPROCS":   func(fr *frame, a []value) value { return 1 },
		"runtime.NumCPU":       func(fr *frame, a []value) value { return 1 },
		"runtime.NumGoroutine": func(fr *frame, a []value) value { return 1 },
		"os.Getenv":            func(fr *frame, a []value) value { return "" },
		"os.Exit": func(fr *frame, a []value) value {
			panic(targetPanic{v: iface{t: fr.i.runtimeErrorString, v: "os.Exit called"}, site: fr.caller.site()})
		},

		// --- strconv ---------------------------------------------------------------------------
		"strconv.ParseFloat":  extParseFloat,
		"strconv.FormatFloat": extFormatFloat,
		"strconv.Itoa":        extItoa,
		"strconv.FormatInt":   extFormatInt,
		"strconv.FormatUint":  extFormatInt,
		"strconv.AppendInt":   nil,
		"strconv.Quote":       func(fr *frame, a []value) value { return fr.opaqueString("quote", a[0]) },

		// --- errors ----------------------------------------------------------------------------
		"errors.Is": nil,
	} {
		if v != nil {
			externals[k] = v
		}
	}
}

func conc1(f func(float64) float64) externalFn {
	return func(fr *frame, a []value) value { return f(concF(fr, a[0])) }
}
func conc2(f func(float64, float64) float64) externalFn {
	return func(fr *frame, a []value) value { return f(concF(fr, a[0]), concF(fr, a[1])) }
}

func concF(fr *frame, v value) float64 {
	if f, ok := v.(float64); ok {
		return f
	}
	fr.i.ctx.end("UNSUPPORTED", "symbolic float passed to a math function that is only modelled concretely (%s)", fr.fn)
	return 0
}

// --- byte search ---------------------------------------------------------------------------

func seqOf(x value) []value {
	if isString(x) {
		return strBytes(x)
	}
	return x.([]value)
}

func extIndexByte(fr *frame, args []value) value {
	c := fr.i.ctx
	s := seqOf(args[0])
	cb := args[1]
	// alternatives: first match at position p (index p), or no match (last index)
	conds := make([]*sym.Term, 0, len(s)+1)
	var none []*sym.Term
	noneIdx := -2
	certain := false
	for p := 0; p < len(s); p++ {
		eq := c.scalarEq(s[p], cb)
		conds = append(conds, c.B.And(append(append([]*sym.Term{}, none...), eq)...))
		if eq.IsTrue() {
			certain = true
			break
		}
		none = append(none, c.B.Not(eq))
	}
	if !certain {
		noneIdx = len(conds)
		conds = append(conds, c.B.And(none...))
	}
	d := c.Choose(conds)
	if d == noneIdx {
		return -1
	}
	return d
}

func extCountByte(fr *frame, args []value) value {
	c := fr.i.ctx
	s := seqOf(args[0])
	cb := args[1]
	n := 0
	for p := range s {
		eq := c.scalarEq(s[p], cb)
		if eq.IsTrue() || (!eq.IsFalse() && c.Branch(eq)) {
			n++
		}
	}
	return n
}

func extBytesEqual(fr *frame, args []value) value {
	c := fr.i.ctx
	return c.mkval(c.bytesEq(seqOf(args[0]), seqOf(args[1])), types.Bool)
}

func extCompare(fr *frame, args []value) value {
	c := fr.i.ctx
	a, b := mkString(seqOf(args[0])), mkString(seqOf(args[1]))
	lt := c.strLess(a, b)
	if lt.IsTrue() || (!lt.IsFalse() && c.Branch(lt)) {
		return -1
	}
	eq := c.strEq(a, b)
	if eq.IsTrue() || (!eq.IsFalse() && c.Branch(eq)) {
		return 0
	}
	return 1
}

func extIndex(fr *frame, args []value) value {
	c := fr.i.ctx
	s, sep := seqOf(args[0]), seqOf(args[1])
	n := len(sep)
	if n == 0 {
		return 0
	}
	var conds []*sym.Term
	var none []*sym.Term
	for p := 0; p+n <= len(s); p++ {
		eq := c.bytesEq(s[p:p+n], sep)
		conds = append(conds, c.B.And(append(append([]*sym.Term{}, none...), eq)...))
		none = append(none, c.B.Not(eq))
	}
	conds = append(conds, c.B.And(none...))
	d := c.Choose(conds)
	if d == len(conds)-1 {
		return -1
	}
	return d
}

func extMakeNoZero(fr *frame, args []value) value {
	n := int(fr.intArg(args[0]))
	out := make([]value, n)
	for i := range out {
		out[i] = byte(0)
	}
	return out
}

func extBuilderString(fr *frame, args []value) value {
	b := (*args[0].(*value)).(structure)
	// type Builder struct { addr *Builder; buf []byte }
	buf, _ := b[1].([]value)
	return mkString(buf)
}

// --- math ----------------------------------------------------------------------------------

func extFloat64bits(fr *frame, a []value) value {
	c := fr.i.ctx
	if s, ok := a[0].(*Sym); ok {
		if c.Mode == Math {
			c.end("UNSUPPORTED", "Float64bits in math mode")
		}
		// fresh bv b with to_fp(b) = x ; NaN payload canonical
		bv := c.FreshInternal("f64bits", types.Uint64)
		c.addPC(c.B.Eq(c.B.FPFromBits(bv.T, sym.FP64), s.T))
		return bv
	}
	return math.Float64bits(a[0].(float64))
}

func extFloat64frombits(fr *frame, a []value) value {
	c := fr.i.ctx
	if s, ok := a[0].(*Sym); ok {
		if c.Mode == Math {
			c.end("UNSUPPORTED", "Float64frombits in math mode")
		}
		return c.mkval(c.B.FPFromBits(s.T, sym.FP64), types.Float64)
	}
	return math.Float64frombits(a[0].(uint64))
}

func extMathAbs(fr *frame, a []value) value {
	c := fr.i.ctx
	if s, ok := a[0].(*Sym); ok {
		if c.Mode == Math {
			z := c.B.RealC(new(big.Rat))
			return c.mkval(c.B.Ite(c.B.RealCmp(">=", s.T, z), s.T, c.B.RealBin("-", z, s.T)), types.Float64)
		}
		return c.mkval(c.B.FPUn("fp.abs", s.T), types.Float64)
	}
	return math.Abs(a[0].(float64))
}

func extMathRound(mode string, f func(float64) float64) externalFn {
	return func(fr *frame, a []value) value {
		c := fr.i.ctx
		if s, ok := a[0].(*Sym); ok {
			if c.Mode == Math {
				switch mode {
				case "RTN":
					return c.mkval(c.B.ToReal(c.B.ToIntFloor(s.T)), types.Float64)
				case "RTP":
					z := c.B.RealC(new(big.Rat))
					return c.mkval(c.B.RealBin("-", z, c.B.ToReal(c.B.ToIntFloor(c.B.RealBin("-", z, s.T)))), types.Float64)
				}
				c.end("UNSUPPORTED", "math rounding mode %s in math mode", mode)
			}
			return c.mkval(c.B.FPRound(mode, s.T), types.Float64)
		}
		return f(a[0].(float64))
	}
}

func extMathSqrt(fr *frame, a []value) value {
	c := fr.i.ctx
	if s, ok := a[0].(*Sym); ok {
		if c.Mode == Math {
			// uninterpreted: r >= 0 and r*r = x (x assumed >= 0: NaN excluded in math mode)
			z := c.B.RealC(new(big.Rat))
			c.Assume(c.B.RealCmp(">=", s.T, z))
			r := c.FreshInternal("sqrt", types.Float64)
			c.addPC(c.B.And(c.B.RealCmp(">=", r.T, z), c.B.Eq(c.B.RealBin("*", r.T, r.T), s.T)))
			return r
		}
		return c.mkval(c.B.FPSqrt(s.T), types.Float64)
	}
	return math.Sqrt(a[0].(float64))
}

func extMathIsNaN(fr *frame, a []value) value {
	c := fr.i.ctx
	if s, ok := a[0].(*Sym); ok {
		if c.Mode == Math {
			return false
		}
		return c.mkval(c.B.FPPred("fp.isNaN", s.T), types.Bool)
	}
	return math.IsNaN(a[0].(float64))
}

func extMathIsInf(fr *frame, a []value) value {
	c := fr.i.ctx
	sign := fr.intArg(a[1])
	if s, ok := a[0].(*Sym); ok {
		if c.Mode == Math {
			return false
		}
		inf := c.B.FPPred("fp.isInfinite", s.T)
		switch {
		case sign > 0:
			inf = c.B.And(inf, c.B.FPPred("fp.isPositive", s.T))
		case sign < 0:
			inf = c.B.And(inf, c.B.FPPred("fp.isNegative", s.T))
		}
		return c.mkval(inf, types.Bool)
	}
	return math.IsInf(a[0].(float64), int(sign))
}

func extMathMinMax(isMin bool) externalFn {
	return func(fr *frame, a []value) value {
		c := fr.i.ctx
		if isSym(a[0]) || isSym(a[1]) {
			x, y := c.termOf(a[0]), c.termOf(a[1])
			if c.Mode == Math {
				if isMin {
					return c.mkval(c.B.Ite(c.B.RealCmp("<=", x, y), x, y), types.Float64)
				}
				return c.mkval(c.B.Ite(c.B.RealCmp(">=", x, y), x, y), types.Float64)
			}
			// Go: NaN if either is NaN; Max(+0,-0)=+0. fp.max/fp.min leave the zero case
			// unspecified, so spell it out.
			nan := c.B.Or(c.B.FPPred("fp.isNaN", x), c.B.FPPred("fp.isNaN", y))
			var pick *sym.Term
			bothZero := c.B.And(c.B.FPPred("fp.isZero", x), c.B.FPPred("fp.isZero", y))
			if isMin {
				zsel := c.B.Ite(c.B.FPPred("fp.isNegative", x), x, y)
				pick = c.B.Ite(bothZero, zsel, c.B.Ite(c.B.FPCmp("fp.lt", x, y), x, y))
			} else {
				zsel := c.B.Ite(c.B.FPPred("fp.isPositive", x), x, y)
				pick = c.B.Ite(bothZero, zsel, c.B.Ite(c.B.FPCmp("fp.gt", x, y), x, y))
			}
			return c.mkval(c.B.Ite(nan, c.B.F64C(math.NaN()), pick), types.Float64)
		}
		if isMin {
			return math.Min(a[0].(float64), a[1].(float64))
		}
		return math.Max(a[0].(float64), a[1].(float64))
	}
}

// --- sync ----------------------------------------------------------------------------------

func extOnceDo(fr *frame, a []value) value {
	o := (*a[0].(*value)).(structure)
	// type Once struct { done atomic.Uint32; m Mutex } ; done is struct{_ noCopy; v uint32}
	done := o[0].(structure)
	if done[len(done)-1].(uint32) != 0 {
		return nil
	}
	done[len(done)-1] = uint32(1)
	call(fr.i, fr, token.NoPos, a[1], nil)
	return nil
}

// WaitGroup: the counter is kept in the first field's last slot (state atomic.Uint64).
func wgCounter(a value) *value {
	wg := (*a.(*value)).(structure)
	// type WaitGroup struct { noCopy noCopy; state atomic.Uint64; sema uint32 }
	st := wg[1].(structure)
	return &st[len(st)-1]
}

func extWgAdd(fr *frame, a []value) value {
	c := fr.i.ctx
	p := wgCounter(a[0])
	cur := int64((*p).(uint64))
	if isSym(a[1]) {
		c.end("UNSUPPORTED", "WaitGroup.Add with symbolic delta")
	}
	cur += asInt64(a[1])
	if cur < 0 {
		c.runtimeError(fr, "sync: negative WaitGroup counter")
	}
	*p = uint64(cur)
	return nil
}

func extWgWait(fr *frame, a []value) value {
	p := wgCounter(a[0])
	if (*p).(uint64) != 0 {
		fr.park(func() bool { return (*p).(uint64) == 0 }, fmt.Sprintf("WaitGroup.Wait with counter %d at %s", (*p).(uint64), fr.caller.site()))
	}
	return nil
}

// sync.Pool: LIFO reuse (the adversarial choice for aliasing properties, DESIGN §2.5).
// type Pool struct { noCopy; local unsafe.Pointer; localSize uintptr; victim; victimSize; New func() any }
func extPoolGet(fr *frame, a []value) value {
	pp := a[0].(*value)
	i := fr.i
	st := i.pools[pp]
	if n := len(st); n > 0 {
		v := st[n-1]
		i.pools[pp] = st[:n-1]
		return v
	}
	p := (*pp).(structure)
	newFn := p[len(p)-1]
	if isNilFunc(newFn) {
		return iface{}
	}
	return call(i, fr, token.NoPos, newFn, nil)
}

func extPoolPut(fr *frame, a []value) value {
	pp := a[0].(*value)
	x := a[1].(iface)
	if x.t == nil {
		return nil
	}
	fr.i.pools[pp] = append(fr.i.pools[pp], x)
	return nil
}

// --- strconv -------------------------------------------------------------------------------

// opaqueString returns a non-empty string of fixed length 3 with fresh symbolic bytes: the
// contract stub for formatting functions (DESIGN §2.5).
func (fr *frame) opaqueString(label string, _ value) value {
	c := fr.i.ctx
	out := make([]value, 3)
	for i := range out {
		out[i] = c.FreshInternal("opq_"+label, types.Uint8)
	}
	c.opaqueUsed = true
	return mkString(out)
}

func extFormatFloat(fr *frame, a []value) value {
	if f, ok := a[0].(float64); ok && !isSym(a[1]) && !isSym(a[2]) && !isSym(a[3]) {
		return strconv.FormatFloat(f, a[1].(byte), int(asInt64(a[2])), int(asInt64(a[3])))
	}
	return fr.opaqueString("ffmt", a[0])
}

func extItoa(fr *frame, a []value) value {
	c := fr.i.ctx
	if sv, ok := a[0].(*Sym); ok {
		// Math mode, small interval: the exact decimal rendering, by case split on sign and number
		// of digits; each digit is the term '0' + (|x| div 10^k) mod 10 (interval [48,57]).
		if c.Mode == Math && sv.T.Lo != nil && sv.T.Hi != nil && sv.T.Lo.Cmp(big.NewInt(-99999)) >= 0 && sv.T.Hi.Cmp(big.NewInt(99999)) <= 0 {
			b := c.B
			zero := b.IntC64(0)
			neg := c.Branch(b.IntCmp("<", sv.T, zero))
			abs := sv.T
			if neg {
				abs = b.IntNeg(sv.T)
				if abs.Kind == sym.TApp {
					abs.Lo, abs.Hi = big.NewInt(0), new(big.Int).Neg(sv.T.Lo)
				}
			}
			nd := 1
			for lim := int64(10); nd < 5; nd, lim = nd+1, lim*10 {
				if c.Branch(b.IntCmp("<", abs, b.IntC64(lim))) {
					break
				}
			}
			var out []value
			if neg {
				out = append(out, byte('-'))
			}
			pow := int64(1)
			for k := 1; k < nd; k++ {
				pow *= 10
			}
			for k := 0; k < nd; k++ {
				d := b.IntModE(b.IntDivE(abs, b.IntC64(pow)), b.IntC64(10))
				ch := b.IntAdd(d, b.IntC64('0'))
				out = append(out, c.mkval(ch, types.Uint8))
				pow /= 10
			}
			return mkString(out)
		}
		return fr.opaqueString("itoa", a[0])
	}
	return strconv.Itoa(int(asInt64(a[0])))
}

func extFormatInt(fr *frame, a []value) value {
	if sv, ok := a[0].(*Sym); ok && !isSym(a[1]) && asInt64(a[1]) == 10 && kindSigned(sv.K) {
		// base 10: the exact rendering when the interval is small (math mode)
		return extItoa(fr, []value{fr.i.ctx.symConv(fr, sv, types.Int)})
	}
	if isSym(a[0]) || isSym(a[1]) {
		return fr.opaqueString("fmtint", a[0])
	}
	if u, ok := a[0].(uint64); ok {
		return strconv.FormatUint(u, int(asInt64(a[1])))
	}
	return strconv.FormatInt(asInt64(a[0]), int(asInt64(a[1])))
}

// ParseFloat: see DESIGN §2.5. For a concrete argument the real function is called. For a
// symbolic argument of length L the result is given by uninterpreted functions pfok_L /
// pfval_L of the L bytes (congruence: equal strings parse equally), with ground facts for a
// table of concrete strings computed natively, and refined by CEGAR at violation time.
var pfTable = []string{"", "0", "1", "-1", "+1", ".", "-", "+", "e", "1e", "1e1", "1.", ".1", "-.", "0x", "0x1", "0x1p", "0x1p1", "1_0", "_", "nan", "NaN", "NAN", "inf", "Inf", "INF", "+inf", "-inf", "+Inf", "-Inf", "1e9", "9e9", "1e999", "-1e999", "infinity", "Infinity", "+infinity", "0.5", "-0", "00", "1 ", " 1", "1\n", "0b1", "0o7", "1e+", "1e-", "1e-9", "١"}

var pfCandCache = map[int][]string{}
var pfCandMu sync.Mutex

// pfCandidates returns concrete strings of length L to which counterexample search is first
// restricted: every string of length <= 2 over the float alphabet that the real ParseFloat
// accepts, plus the curated table.
func pfCandidates(L int) []string {
	pfCandMu.Lock()
	defer pfCandMu.Unlock()
	if c, ok := pfCandCache[L]; ok {
		return c
	}
	var out []string
	seen := map[string]bool{}
	for _, s := range pfTable {
		if len(s) == L && !seen[s] {
			seen[s] = true
			out = append(out, s)
		}
	}
	const alpha = "0123456789+-.eEinfaNIxp_ "
	if L == 1 || L == 2 {
		var rec func(prefix string)
		rec = func(prefix string) {
			if len(prefix) == L {
				if _, err := strconv.ParseFloat(prefix, 64); err == nil && !seen[prefix] {
					seen[prefix] = true
					out = append(out, prefix)
				}
				return
			}
			for i := 0; i < len(alpha); i++ {
				rec(prefix + string(alpha[i]))
			}
		}
		rec("")
	}
	if L >= 3 {
		// a few structured candidates of any length: zeros, negative, nan/inf padded forms
		for _, s := range []string{strings.Repeat("0", L), "-" + strings.Repeat("1", L-1), "1e" + strings.Repeat("9", L-2), "." + strings.Repeat("5", L-1), strings.Repeat("7", L)} {
			if len(s) == L && !seen[s] {
				seen[s] = true
				out = append(out, s)
			}
		}
	}
	pfCandCache[L] = out
	return out
}

func (c *Ctx) pfTerms(bs []value) (ok, val *sym.Term) {
	L := len(bs)
	args := make([]*sym.Term, L)
	for i, b := range bs {
		args[i] = c.byteTerm(b)
	}
	fso := sym.FP64
	if c.Mode == Math {
		fso = sym.Real
	}
	return c.B.UF(fmt.Sprintf("pfok_%d", L), sym.Bool, args...), c.B.UF(fmt.Sprintf("pfval_%d", L), fso, args...)
}

func (c *Ctx) pfFact(s string) {
	if c.facts["pf:"+s] {
		return
	}
	c.facts["pf:"+s] = true
	if len(s) == 0 {
		return
	}
	bs := strBytes(s)
	okT, valT := c.pfTerms(bs)
	v, err := strconv.ParseFloat(s, 64)
	if c.Mode == Math && (math.IsNaN(v) || math.IsInf(v, 0)) {
		// math mode excludes non-finite values: such strings are assumed away where they arise
		c.addPC(c.B.Eq(okT, c.B.BoolC(err == nil)))
		return
	}
	c.addPC(c.B.And(c.B.Eq(okT, c.B.BoolC(err == nil)), c.B.Eq(valT, c.termOf(v))))
}

type pfCall struct {
	bytes []value
	ok    *sym.Term
}

func extParseFloat(fr *frame, a []value) value {
	c := fr.i.ctx
	if s, ok := a[0].(string); ok {
		v, err := strconv.ParseFloat(s, int(asInt64(a[1])))
		if err != nil {
			return tuple{v, fr.errorValue(err.Error())}
		}
		return tuple{v, iface{}}
	}
	bs := strBytes(a[0])
	okT, valT := c.pfTerms(bs)
	for _, s := range pfTable {
		if len(s) == len(bs) {
			c.pfFact(s)
		}
	}
	for _, s := range c.PFLearned[len(bs)] {
		c.pfFact(s)
	}
	c.pfCalls = append(c.pfCalls, pfCall{bytes: bs, ok: okT})
	if len(bs) <= 2 {
		// strings of at most two bytes: the stub is made exact. Every string the real ParseFloat
		// accepts is enumerated (digits, sign, point), and a rejected string yields +0.
		var alts []*sym.Term
		for _, cand := range pfCandidates(len(bs)) {
			if _, err := strconv.ParseFloat(cand, 64); err == nil {
				alts = append(alts, c.bytesEq(bs, strBytes(cand)))
			}
		}
		c.addPC(c.B.Implies(okT, c.B.Or(alts...)))
		if c.Mode == Machine {
			c.addPC(c.B.Implies(c.B.Not(okT), c.B.Eq(valT, c.B.F64C(0))))
		}
	}
	if c.Branch(okT) {
		return tuple{c.mkval(valT, types.Float64), iface{}}
	}
	// error: value is 0 or ±Inf (range error)
	if c.Mode == Math {
		return tuple{float64(0), fr.errorValue("strconv.ParseFloat: parsing: invalid syntax")}
	}
	v := c.mkval(valT, types.Float64)
	c.addPC(c.B.Or(c.B.FPPred("fp.isZero", valT), c.B.FPPred("fp.isInfinite", valT)))
	return tuple{v, fr.errorValue("strconv.ParseFloat: parsing: invalid syntax or out of range")}
}
