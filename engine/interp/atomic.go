package interp

import (
	"go/token"
	"go/types"
	"strings"
)

// sync/atomic: plain memory operations (the engine is single-threaded).

func init() {
	for _, ty := range []struct {
		suffix string
		k      types.BasicKind
	}{{"Int32", types.Int32}, {"Int64", types.Int64}, {"Uint32", types.Uint32}, {"Uint64", types.Uint64}, {"Uintptr", types.Uintptr}} {
		ty := ty
		t := types.Typ[ty.k]
		externals["sync/atomic.Load"+ty.suffix] = func(fr *frame, a []value) value { return *a[0].(*value) }
		externals["sync/atomic.Store"+ty.suffix] = func(fr *frame, a []value) value { *a[0].(*value) = a[1]; return nil }
		externals["sync/atomic.Add"+ty.suffix] = func(fr *frame, a []value) value {
			p := a[0].(*value)
			*p = fr.binop(token.ADD, t, *p, a[1])
			return *p
		}
		externals["sync/atomic.Swap"+ty.suffix] = func(fr *frame, a []value) value {
			p := a[0].(*value)
			old := *p
			*p = a[1]
			return old
		}
		externals["sync/atomic.CompareAndSwap"+ty.suffix] = func(fr *frame, a []value) value {
			p := a[0].(*value)
			c := fr.i.ctx
			eq := c.scalarEq(*p, a[1])
			if eq.IsTrue() || (!eq.IsFalse() && c.Branch(eq)) {
				*p = a[2]
				return true
			}
			return false
		}
		externals["sync/atomic.And"+ty.suffix] = func(fr *frame, a []value) value {
			p := a[0].(*value)
			old := *p
			*p = fr.binop(token.AND, t, *p, a[1])
			return old
		}
		externals["sync/atomic.Or"+ty.suffix] = func(fr *frame, a []value) value {
			p := a[0].(*value)
			old := *p
			*p = fr.binop(token.OR, t, *p, a[1])
			return old
		}
	}
	externals["sync/atomic.LoadPointer"] = func(fr *frame, a []value) value { return *a[0].(*value) }
	externals["sync/atomic.StorePointer"] = func(fr *frame, a []value) value { *a[0].(*value) = a[1]; return nil }
	externals["sync/atomic.SwapPointer"] = func(fr *frame, a []value) value {
		p := a[0].(*value)
		old := *p
		*p = a[1]
		return old
	}
	externals["sync/atomic.CompareAndSwapPointer"] = func(fr *frame, a []value) value {
		p := a[0].(*value)
		if *p == a[1] {
			*p = a[2]
			return true
		}
		return false
	}
	// atomic.Value: struct{ v any }
	externals["(*sync/atomic.Value).Load"] = func(fr *frame, a []value) value {
		return (*a[0].(*value)).(structure)[0]
	}
	externals["(*sync/atomic.Value).Store"] = func(fr *frame, a []value) value {
		(*a[0].(*value)).(structure)[0] = a[1]
		return nil
	}
	// atomic.Pointer[T]: struct{ _ [0]*T; _ noCopy; v unsafe.Pointer } - generic methods are
	// instantiated; handled by name prefix in lookupGenericAtomic.
}

// genericAtomic handles methods of sync/atomic.Pointer[T] instances.
func genericAtomic(name string) externalFn {
	if !strings.HasPrefix(name, "(*sync/atomic.Pointer[") {
		return nil
	}
	field := func(a value) *value {
		st := (*a.(*value)).(structure)
		return &st[len(st)-1]
	}
	switch {
	case strings.HasSuffix(name, ".Load"):
		return func(fr *frame, a []value) value {
			v := *field(a[0])
			if up, ok := v.(unsafePtr); ok {
				if up.p == nil {
					return (*value)(nil)
				}
				return up.p
			}
			return v
		}
	case strings.HasSuffix(name, ".Store"):
		return func(fr *frame, a []value) value { *field(a[0]) = a[1]; return nil }
	case strings.HasSuffix(name, ".Swap"):
		return func(fr *frame, a []value) value {
			p := field(a[0])
			old := *p
			*p = a[1]
			if up, ok := old.(unsafePtr); ok {
				if up.p == nil {
					return (*value)(nil)
				}
				return up.p
			}
			return old
		}
	case strings.HasSuffix(name, ".CompareAndSwap"):
		return func(fr *frame, a []value) value {
			p := field(a[0])
			cur := *p
			if up, ok := cur.(unsafePtr); ok {
				if up.p == nil {
					cur = (*value)(nil)
				} else {
					cur = up.p
				}
			}
			if cur == a[1] {
				*p = a[2]
				return true
			}
			return false
		}
	}
	return nil
}
