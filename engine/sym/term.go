// Package sym implements the hash-consed term DAG that the symbolic interpreter builds and
// that is printed to SMT-LIB2.
package sym

import (
	"fmt"
	"math"
	"math/big"
	"strconv"
	"strings"
)

type SortKind uint8

const (
	KBool SortKind = iota
	KBV
	KFP64
	KFP32
	KInt  // mathematical integer (math mode)
	KReal // mathematical real (math mode)
)

type Sort struct {
	K SortKind
	W int // bit width for KBV
}

var (
	Bool = Sort{K: KBool}
	FP64 = Sort{K: KFP64}
	FP32 = Sort{K: KFP32}
	Int  = Sort{K: KInt}
	Real = Sort{K: KReal}
)

func BV(w int) Sort { return Sort{K: KBV, W: w} }

func (s Sort) SMT() string {
	switch s.K {
	case KBool:
		return "Bool"
	case KBV:
		return fmt.Sprintf("(_ BitVec %d)", s.W)
	case KFP64:
		return "(_ FloatingPoint 11 53)"
	case KFP32:
		return "(_ FloatingPoint 8 24)"
	case KInt:
		return "Int"
	case KReal:
		return "Real"
	}
	panic("bad sort")
}

type TermKind uint8

const (
	TConst TermKind = iota
	TVar
	TApp
)

// Term is an immutable node of the DAG. Terms are created only through a Builder, which
// guarantees structural sharing: two structurally equal terms are the same pointer.
type Term struct {
	ID   int
	Kind TermKind
	Head string // SMT head (including indices / rounding mode) for TApp; name for TVar; literal for TConst
	Args []*Term
	Sort Sort
	Val  uint64   // value of a BV / Bool (0/1) / FP (IEEE bits) constant
	Big  *big.Int // value of an Int constant
	Rat  *big.Rat // value of a Real constant
	// Conservative interval of an Int term (math mode); nil = unbounded.
	Lo, Hi *big.Int
	// UMax is an upper bound of the unsigned value of a bit-vector term (sound, cheap: computed
	// bottom-up at construction). It lets `x % c` with x provably below c fold to x, which
	// removes the modulo chains of hash/adler32 on short inputs.
	UMax uint64
	// HasFP: an IEEE floating-point term occurs in the DAG below (such queries go to a
	// non-incremental solver context, which is much faster on them).
	HasFP bool
	// Decl is the declare-fun text of an uninterpreted function application (emitted once).
	Decl string
}

func (t *Term) IsConst() bool { return t.Kind == TConst }
func (t *Term) IsTrue() bool  { return t.Kind == TConst && t.Sort.K == KBool && t.Val == 1 }
func (t *Term) IsFalse() bool { return t.Kind == TConst && t.Sort.K == KBool && t.Val == 0 }

type Builder struct {
	tab   map[string]*Term
	n     int
	True  *Term
	False *Term
	Vars  []*Term
}

func NewBuilder() *Builder {
	b := &Builder{tab: make(map[string]*Term)}
	b.True = b.mk(&Term{Kind: TConst, Head: "true", Sort: Bool, Val: 1})
	b.False = b.mk(&Term{Kind: TConst, Head: "false", Sort: Bool, Val: 0})
	return b
}

func (b *Builder) NumTerms() int { return b.n }

func (b *Builder) mk(t *Term) *Term {
	var sb strings.Builder
	sb.WriteByte(byte('0' + t.Kind))
	sb.WriteString(t.Head)
	sb.WriteByte('|')
	sb.WriteString(strconv.Itoa(int(t.Sort.K)*100 + t.Sort.W))
	for _, a := range t.Args {
		sb.WriteByte(',')
		sb.WriteString(strconv.Itoa(a.ID))
	}
	k := sb.String()
	if old, ok := b.tab[k]; ok {
		return old
	}
	b.n++
	t.ID = b.n
	if t.Sort.K == KFP64 || t.Sort.K == KFP32 {
		t.HasFP = true
	}
	for _, a := range t.Args {
		if a.HasFP {
			t.HasFP = true
		}
	}
	if t.Sort.K == KBV {
		t.UMax = umaxOf(t)
	}
	b.tab[k] = t
	return t
}

func addNoOvf(a, b, m uint64) (uint64, bool) {
	s := a + b
	if s < a || s > m {
		return m, false
	}
	return s, true
}

func umaxOf(t *Term) uint64 {
	m := mask(t.Sort.W)
	switch t.Kind {
	case TConst:
		return t.Val
	case TVar:
		return m
	}
	a := t.Args
	switch {
	case strings.HasPrefix(t.Head, "(_ zero_extend"):
		return a[0].UMax
	case strings.HasPrefix(t.Head, "(_ extract"):
		// only low extracts keep a bound
		if strings.HasSuffix(t.Head, " 0)") && a[0].UMax <= m {
			return a[0].UMax
		}
		return m
	}
	switch t.Head {
	case "bvadd":
		s, _ := addNoOvf(a[0].UMax, a[1].UMax, m)
		return s
	case "bvmul":
		if a[0].UMax != 0 && a[1].UMax > m/a[0].UMax {
			return m
		}
		return a[0].UMax * a[1].UMax
	case "bvurem":
		if a[1].IsConst() && a[1].Val > 0 {
			if a[0].UMax < a[1].Val-1 {
				return a[0].UMax
			}
			return a[1].Val - 1
		}
		return a[0].UMax
	case "bvudiv":
		if a[1].IsConst() && a[1].Val > 0 {
			return a[0].UMax / a[1].Val
		}
		return m
	case "bvand":
		if a[0].UMax < a[1].UMax {
			return a[0].UMax
		}
		return a[1].UMax
	case "bvor", "bvxor":
		x := a[0].UMax | a[1].UMax
		// smallest 2^k-1 >= x
		r := uint64(0)
		for r < x {
			r = r<<1 | 1
		}
		if r > m {
			return m
		}
		return r
	case "bvlshr":
		if a[1].IsConst() && a[1].Val < 64 {
			return a[0].UMax >> a[1].Val
		}
		return a[0].UMax
	case "ite":
		if a[1].UMax > a[2].UMax {
			return a[1].UMax
		}
		return a[2].UMax
	}
	return m
}

// ---------------------------------------------------------------------------------------
// leaves

func (b *Builder) Var(name string, s Sort) *Term {
	k := "1" + name + "|" + strconv.Itoa(int(s.K)*100+s.W)
	if old, ok := b.tab[k]; ok {
		return old
	}
	t := b.mk(&Term{Kind: TVar, Head: name, Sort: s})
	b.Vars = append(b.Vars, t)
	return t
}

func (b *Builder) BoolC(v bool) *Term {
	if v {
		return b.True
	}
	return b.False
}

func mask(w int) uint64 {
	if w >= 64 {
		return ^uint64(0)
	}
	return (uint64(1) << uint(w)) - 1
}

func (b *Builder) BVC(v uint64, w int) *Term {
	v &= mask(w)
	var head string
	if w%4 == 0 {
		head = fmt.Sprintf("#x%0*x", w/4, v)
	} else {
		head = fmt.Sprintf("#b%0*b", w, v)
	}
	return b.mk(&Term{Kind: TConst, Head: head, Sort: BV(w), Val: v})
}

func (b *Builder) F64C(f float64) *Term {
	bits := math.Float64bits(f)
	var head string
	if f != f {
		head = "(_ NaN 11 53)"
		bits = math.Float64bits(math.NaN())
	} else {
		head = fmt.Sprintf("(fp #b%d #b%011b #x%013x)", bits>>63, (bits>>52)&0x7ff, bits&((1<<52)-1))
	}
	return b.mk(&Term{Kind: TConst, Head: head, Sort: FP64, Val: bits})
}

func (b *Builder) F32C(f float32) *Term {
	bits := uint64(math.Float32bits(f))
	var head string
	if f != f {
		head = "(_ NaN 8 24)"
	} else {
		head = fmt.Sprintf("(fp #b%d #b%08b #b%023b)", bits>>31, (bits>>23)&0xff, bits&((1<<23)-1))
	}
	return b.mk(&Term{Kind: TConst, Head: head, Sort: FP32, Val: bits})
}

func (b *Builder) IntC(v *big.Int) *Term {
	var head string
	if v.Sign() < 0 {
		head = "(- " + new(big.Int).Neg(v).String() + ")"
	} else {
		head = v.String()
	}
	c := new(big.Int).Set(v)
	return b.mk(&Term{Kind: TConst, Head: head, Sort: Int, Big: c, Lo: c, Hi: c})
}

func (b *Builder) IntC64(v int64) *Term { return b.IntC(big.NewInt(v)) }

func (b *Builder) RealC(r *big.Rat) *Term {
	num, den := r.Num(), r.Denom()
	var head string
	ns := new(big.Int).Abs(num).String() + ".0"
	if num.Sign() < 0 {
		ns = "(- " + ns + ")"
	}
	if den.IsInt64() && den.Int64() == 1 {
		head = ns
	} else {
		head = "(/ " + ns + " " + den.String() + ".0)"
	}
	return b.mk(&Term{Kind: TConst, Head: head, Sort: Real, Rat: new(big.Rat).Set(r)})
}

// RealF returns the exact rational value of a finite float64.
func (b *Builder) RealF(f float64) *Term {
	r := new(big.Rat)
	if r.SetFloat64(f) == nil {
		panic("RealF: non-finite float in math mode")
	}
	return b.RealC(r)
}

// App builds an uninterpreted application node with no simplification.
func (b *Builder) App(head string, s Sort, args ...*Term) *Term {
	return b.mk(&Term{Kind: TApp, Head: head, Sort: s, Args: args})
}

// UF builds an application of an uninterpreted function, declared on first use.
func (b *Builder) UF(name string, ret Sort, args ...*Term) *Term {
	t := b.mk(&Term{Kind: TApp, Head: name, Sort: ret, Args: args})
	if t.Decl == "" {
		var sb strings.Builder
		sb.WriteString("(declare-fun " + name + " (")
		for _, a := range args {
			sb.WriteString(a.Sort.SMT())
			sb.WriteByte(' ')
		}
		sb.WriteString(") " + ret.SMT() + ")")
		t.Decl = sb.String()
	}
	return t
}

// ---------------------------------------------------------------------------------------
// booleans

func (b *Builder) Not(x *Term) *Term {
	if x.IsConst() {
		return b.BoolC(x.Val == 0)
	}
	if x.Kind == TApp && x.Head == "not" {
		return x.Args[0]
	}
	return b.App("not", Bool, x)
}

func (b *Builder) And(xs ...*Term) *Term {
	var out []*Term
	seen := map[int]bool{}
	for _, x := range xs {
		if x.IsFalse() {
			return b.False
		}
		if x.IsTrue() || seen[x.ID] {
			continue
		}
		if x.Kind == TApp && x.Head == "and" {
			for _, y := range x.Args {
				if !seen[y.ID] {
					seen[y.ID] = true
					out = append(out, y)
				}
			}
			continue
		}
		seen[x.ID] = true
		out = append(out, x)
	}
	for _, x := range out {
		if x.Kind == TApp && x.Head == "not" && seen[x.Args[0].ID] {
			return b.False
		}
	}
	switch len(out) {
	case 0:
		return b.True
	case 1:
		return out[0]
	}
	return b.App("and", Bool, out...)
}

func (b *Builder) Or(xs ...*Term) *Term {
	var out []*Term
	seen := map[int]bool{}
	for _, x := range xs {
		if x.IsTrue() {
			return b.True
		}
		if x.IsFalse() || seen[x.ID] {
			continue
		}
		if x.Kind == TApp && x.Head == "or" {
			for _, y := range x.Args {
				if !seen[y.ID] {
					seen[y.ID] = true
					out = append(out, y)
				}
			}
			continue
		}
		seen[x.ID] = true
		out = append(out, x)
	}
	for _, x := range out {
		if x.Kind == TApp && x.Head == "not" && seen[x.Args[0].ID] {
			return b.True
		}
	}
	switch len(out) {
	case 0:
		return b.False
	case 1:
		return out[0]
	}
	return b.App("or", Bool, out...)
}

func (b *Builder) Implies(x, y *Term) *Term { return b.Or(b.Not(x), y) }

func (b *Builder) Ite(c, x, y *Term) *Term {
	if c.IsTrue() {
		return x
	}
	if c.IsFalse() {
		return y
	}
	if x == y {
		return x
	}
	if x.Sort != y.Sort {
		panic(fmt.Sprintf("ite sort mismatch %v %v", x.Sort, y.Sort))
	}
	if x.Sort.K == KBool {
		if x.IsTrue() && y.IsFalse() {
			return c
		}
		if x.IsFalse() && y.IsTrue() {
			return b.Not(c)
		}
		if x.IsTrue() {
			return b.Or(c, y)
		}
		if x.IsFalse() {
			return b.And(b.Not(c), y)
		}
		if y.IsTrue() {
			return b.Or(b.Not(c), x)
		}
		if y.IsFalse() {
			return b.And(c, x)
		}
	}
	t := b.App("ite", x.Sort, c, x, y)
	if x.Sort.K == KInt && t.Lo == nil && x.Lo != nil && y.Lo != nil && x.Hi != nil && y.Hi != nil {
		t.Lo, t.Hi = bigMin(x.Lo, y.Lo), bigMax(x.Hi, y.Hi)
	}
	return t
}

func bigMin(a, b *big.Int) *big.Int {
	if a.Cmp(b) <= 0 {
		return a
	}
	return b
}
func bigMax(a, b *big.Int) *big.Int {
	if a.Cmp(b) >= 0 {
		return a
	}
	return b
}

// Eq is sort-generic equality. For floating point it is *structural* equality (NaN = NaN);
// use FPEq for Go's ==.
func (b *Builder) Eq(x, y *Term) *Term {
	if x == y {
		return b.True
	}
	if x.Sort != y.Sort {
		panic(fmt.Sprintf("eq sort mismatch %v %v (%s, %s)", x.Sort, y.Sort, x.Head, y.Head))
	}
	if x.IsConst() && y.IsConst() {
		switch x.Sort.K {
		case KInt:
			return b.BoolC(x.Big.Cmp(y.Big) == 0)
		case KReal:
			return b.BoolC(x.Rat.Cmp(y.Rat) == 0)
		default:
			return b.BoolC(x.Val == y.Val)
		}
	}
	if x.Sort.K == KBool {
		if x.IsTrue() {
			return y
		}
		if y.IsTrue() {
			return x
		}
		if x.IsFalse() {
			return b.Not(y)
		}
		if y.IsFalse() {
			return b.Not(x)
		}
	}
	if x.ID > y.ID {
		x, y = y, x
	}
	return b.App("=", Bool, x, y)
}

// ---------------------------------------------------------------------------------------
// bit-vectors

func sext64(v uint64, w int) int64 {
	if w >= 64 {
		return int64(v)
	}
	sh := uint(64 - w)
	return int64(v<<sh) >> sh
}

// BVBin builds a binary bit-vector operation (result sort = operand sort).
func (b *Builder) BVBin(op string, x, y *Term) *Term {
	w := x.Sort.W
	if x.Sort != y.Sort || x.Sort.K != KBV {
		panic(fmt.Sprintf("bvbin %s sort mismatch %v %v", op, x.Sort, y.Sort))
	}
	if x.IsConst() && y.IsConst() {
		a, c := x.Val, y.Val
		var r uint64
		ok := true
		switch op {
		case "bvadd":
			r = a + c
		case "bvsub":
			r = a - c
		case "bvmul":
			r = a * c
		case "bvand":
			r = a & c
		case "bvor":
			r = a | c
		case "bvxor":
			r = a ^ c
		case "bvudiv":
			if c == 0 {
				r = mask(w)
			} else {
				r = a / c
			}
		case "bvurem":
			if c == 0 {
				r = a
			} else {
				r = a % c
			}
		case "bvsdiv":
			sa, sc := sext64(a, w), sext64(c, w)
			if sc == 0 {
				if sa >= 0 {
					r = mask(w)
				} else {
					r = 1
				}
			} else if sc == -1 {
				r = uint64(-sa)
			} else {
				r = uint64(sa / sc)
			}
		case "bvsrem":
			sa, sc := sext64(a, w), sext64(c, w)
			if sc == 0 {
				r = a
			} else if sc == -1 {
				r = 0
			} else {
				r = uint64(sa % sc)
			}
		case "bvshl":
			if c >= uint64(w) {
				r = 0
			} else {
				r = a << c
			}
		case "bvlshr":
			if c >= uint64(w) {
				r = 0
			} else {
				r = a >> c
			}
		case "bvashr":
			sa := sext64(a, w)
			if c >= uint64(w) {
				c = uint64(w - 1)
			}
			r = uint64(sa >> c)
		default:
			ok = false
		}
		if ok {
			return b.BVC(r, w)
		}
	}
	if op == "bvurem" && y.IsConst() && y.Val > 0 && x.UMax < y.Val {
		return x
	}
	if op == "bvudiv" && y.IsConst() && y.Val > 0 && x.UMax < y.Val {
		return b.BVC(0, w)
	}
	// light identities
	switch op {
	case "bvadd", "bvor", "bvxor":
		if x.IsConst() && x.Val == 0 {
			return y
		}
		if y.IsConst() && y.Val == 0 {
			return x
		}
	case "bvsub", "bvshl", "bvlshr", "bvashr":
		if y.IsConst() && y.Val == 0 {
			return x
		}
	case "bvmul":
		if x.IsConst() && x.Val == 1 {
			return y
		}
		if y.IsConst() && y.Val == 1 {
			return x
		}
		if (x.IsConst() && x.Val == 0) || (y.IsConst() && y.Val == 0) {
			return b.BVC(0, w)
		}
	case "bvand":
		if (x.IsConst() && x.Val == 0) || (y.IsConst() && y.Val == 0) {
			return b.BVC(0, w)
		}
		if x.IsConst() && x.Val == mask(w) {
			return y
		}
		if y.IsConst() && y.Val == mask(w) {
			return x
		}
	}
	return b.App(op, x.Sort, x, y)
}

func (b *Builder) BVNot(x *Term) *Term {
	if x.IsConst() {
		return b.BVC(^x.Val, x.Sort.W)
	}
	return b.App("bvnot", x.Sort, x)
}

func (b *Builder) BVNeg(x *Term) *Term {
	if x.IsConst() {
		return b.BVC(-x.Val, x.Sort.W)
	}
	return b.App("bvneg", x.Sort, x)
}

// BVCmp builds bvult/bvule/bvslt/bvsle (others are derived by the caller).
func (b *Builder) BVCmp(op string, x, y *Term) *Term {
	if x.Sort != y.Sort || x.Sort.K != KBV {
		panic(fmt.Sprintf("bvcmp %s sort mismatch %v %v", op, x.Sort, y.Sort))
	}
	w := x.Sort.W
	if x.IsConst() && y.IsConst() {
		switch op {
		case "bvult":
			return b.BoolC(x.Val < y.Val)
		case "bvule":
			return b.BoolC(x.Val <= y.Val)
		case "bvslt":
			return b.BoolC(sext64(x.Val, w) < sext64(y.Val, w))
		case "bvsle":
			return b.BoolC(sext64(x.Val, w) <= sext64(y.Val, w))
		}
	}
	if x == y {
		return b.BoolC(op == "bvule" || op == "bvsle")
	}
	if op == "bvult" && y.IsConst() && x.UMax < y.Val {
		return b.True
	}
	if op == "bvule" && y.IsConst() && x.UMax <= y.Val {
		return b.True
	}
	if op == "bvult" && x.IsConst() && y.UMax <= x.Val {
		return b.False
	}
	if op == "bvule" && x.IsConst() && y.UMax < x.Val {
		return b.False
	}
	// unsigned comparisons against range extremes
	if op == "bvult" && y.IsConst() && y.Val == 0 {
		return b.False
	}
	if op == "bvule" && x.IsConst() && x.Val == 0 {
		return b.True
	}
	// a zero-extended narrow value compared with a constant outside its range
	if (op == "bvult" || op == "bvule") && y.IsConst() && x.Kind == TApp && strings.HasPrefix(x.Head, "(_ zero_extend") {
		iw := x.Args[0].Sort.W
		if y.Val > mask(iw) {
			return b.True
		}
	}
	return b.App(op, Bool, x, y)
}

func (b *Builder) Extract(hi, lo int, x *Term) *Term {
	w := hi - lo + 1
	if lo == 0 && w == x.Sort.W {
		return x
	}
	if x.IsConst() {
		return b.BVC(x.Val>>uint(lo), w)
	}
	if x.Kind == TApp && lo == 0 && (strings.HasPrefix(x.Head, "(_ zero_extend") || strings.HasPrefix(x.Head, "(_ sign_extend")) {
		in := x.Args[0]
		if in.Sort.W == w {
			return in
		}
		if in.Sort.W > w {
			return b.Extract(hi, 0, in)
		}
	}
	return b.App(fmt.Sprintf("(_ extract %d %d)", hi, lo), BV(w), x)
}

func (b *Builder) ZExt(x *Term, to int) *Term {
	n := to - x.Sort.W
	if n == 0 {
		return x
	}
	if n < 0 {
		panic("zext to narrower")
	}
	if x.IsConst() {
		return b.BVC(x.Val, to)
	}
	return b.App(fmt.Sprintf("(_ zero_extend %d)", n), BV(to), x)
}

func (b *Builder) SExt(x *Term, to int) *Term {
	n := to - x.Sort.W
	if n == 0 {
		return x
	}
	if n < 0 {
		panic("sext to narrower")
	}
	if x.IsConst() {
		return b.BVC(uint64(sext64(x.Val, x.Sort.W)), to)
	}
	return b.App(fmt.Sprintf("(_ sign_extend %d)", n), BV(to), x)
}

func (b *Builder) Concat(hi, lo *Term) *Term {
	w := hi.Sort.W + lo.Sort.W
	if hi.IsConst() && lo.IsConst() && w <= 64 {
		return b.BVC(hi.Val<<uint(lo.Sort.W)|lo.Val, w)
	}
	return b.App("concat", BV(w), hi, lo)
}

// ---------------------------------------------------------------------------------------
// floating point (machine mode). No folding: both-concrete operations never reach here.

func (b *Builder) FPBin(op string, x, y *Term) *Term {
	return b.App(op+" RNE", x.Sort, x, y)
}
func (b *Builder) FPUn(op string, x *Term) *Term { return b.App(op, x.Sort, x) }
func (b *Builder) FPSqrt(x *Term) *Term          { return b.App("fp.sqrt RNE", x.Sort, x) }
func (b *Builder) FPRound(mode string, x *Term) *Term {
	return b.App("fp.roundToIntegral "+mode, x.Sort, x)
}
func (b *Builder) FPCmp(op string, x, y *Term) *Term { return b.App(op, Bool, x, y) }
func (b *Builder) FPPred(op string, x *Term) *Term   { return b.App(op, Bool, x) }

func fpIdx(s Sort) string {
	if s.K == KFP32 {
		return "8 24"
	}
	return "11 53"
}

func (b *Builder) FPFromSBV(x *Term, to Sort) *Term {
	return b.App("(_ to_fp "+fpIdx(to)+") RNE", to, x)
}
func (b *Builder) FPFromUBV(x *Term, to Sort) *Term {
	return b.App("(_ to_fp_unsigned "+fpIdx(to)+") RNE", to, x)
}
func (b *Builder) FPFromFP(x *Term, to Sort) *Term {
	if x.Sort == to {
		return x
	}
	return b.App("(_ to_fp "+fpIdx(to)+") RNE", to, x)
}
func (b *Builder) FPFromBits(x *Term, to Sort) *Term {
	return b.App("(_ to_fp "+fpIdx(to)+")", to, x)
}
func (b *Builder) FPToSBV(x *Term, w int) *Term {
	return b.App(fmt.Sprintf("(_ fp.to_sbv %d) RTZ", w), BV(w), x)
}
func (b *Builder) FPToUBV(x *Term, w int) *Term {
	return b.App(fmt.Sprintf("(_ fp.to_ubv %d) RTZ", w), BV(w), x)
}

// ---------------------------------------------------------------------------------------
// mathematical integers / reals (math mode)

func (b *Builder) IntVar(name string, lo, hi *big.Int) *Term {
	t := b.Var(name, Int)
	t.Lo, t.Hi = lo, hi
	return t
}

func (b *Builder) setIv(t *Term, lo, hi *big.Int) *Term {
	if t.Lo == nil && t.Hi == nil {
		t.Lo, t.Hi = lo, hi
	}
	return t
}

func (b *Builder) IntAdd(x, y *Term) *Term {
	if x.IsConst() && y.IsConst() {
		return b.IntC(new(big.Int).Add(x.Big, y.Big))
	}
	if x.IsConst() && x.Big.Sign() == 0 {
		return y
	}
	if y.IsConst() && y.Big.Sign() == 0 {
		return x
	}
	t := b.App("+", Int, x, y)
	if x.Lo != nil && y.Lo != nil && x.Hi != nil && y.Hi != nil {
		b.setIv(t, new(big.Int).Add(x.Lo, y.Lo), new(big.Int).Add(x.Hi, y.Hi))
	}
	return t
}

func (b *Builder) IntSub(x, y *Term) *Term {
	if x.IsConst() && y.IsConst() {
		return b.IntC(new(big.Int).Sub(x.Big, y.Big))
	}
	if y.IsConst() && y.Big.Sign() == 0 {
		return x
	}
	if x == y {
		return b.IntC64(0)
	}
	t := b.App("-", Int, x, y)
	if x.Lo != nil && y.Lo != nil && x.Hi != nil && y.Hi != nil {
		b.setIv(t, new(big.Int).Sub(x.Lo, y.Hi), new(big.Int).Sub(x.Hi, y.Lo))
	}
	return t
}

func (b *Builder) IntNeg(x *Term) *Term { return b.IntSub(b.IntC64(0), x) }

func (b *Builder) IntMul(x, y *Term) *Term {
	if x.IsConst() && y.IsConst() {
		return b.IntC(new(big.Int).Mul(x.Big, y.Big))
	}
	if x.IsConst() && x.Big.IsInt64() && x.Big.Int64() == 1 {
		return y
	}
	if y.IsConst() && y.Big.IsInt64() && y.Big.Int64() == 1 {
		return x
	}
	t := b.App("*", Int, x, y)
	if x.Lo != nil && y.Lo != nil && x.Hi != nil && y.Hi != nil {
		c := []*big.Int{
			new(big.Int).Mul(x.Lo, y.Lo), new(big.Int).Mul(x.Lo, y.Hi),
			new(big.Int).Mul(x.Hi, y.Lo), new(big.Int).Mul(x.Hi, y.Hi)}
		lo, hi := c[0], c[0]
		for _, v := range c[1:] {
			lo, hi = bigMin(lo, v), bigMax(hi, v)
		}
		b.setIv(t, lo, hi)
	}
	return t
}

// IntDivE / IntModE are SMT-LIB's Euclidean div and mod (divisor must be non-zero).
func (b *Builder) IntDivE(x, y *Term) *Term {
	if x.IsConst() && y.IsConst() && y.Big.Sign() != 0 {
		q, m := new(big.Int).DivMod(x.Big, y.Big, new(big.Int))
		_ = m
		return b.IntC(q)
	}
	if y.IsConst() && y.Big.Sign() > 0 && x.Lo != nil && x.Hi != nil && x.Lo.Sign() >= 0 {
		if x.Hi.Cmp(y.Big) < 0 {
			return b.IntC64(0)
		}
		t := b.App("div", Int, x, y)
		b.setIv(t, new(big.Int).Div(x.Lo, y.Big), new(big.Int).Div(x.Hi, y.Big))
		return t
	}
	t := b.App("div", Int, x, y)
	if x.Lo != nil && x.Hi != nil {
		a := bigMax(new(big.Int).Abs(x.Lo), new(big.Int).Abs(x.Hi))
		a = new(big.Int).Add(a, big.NewInt(1))
		b.setIv(t, new(big.Int).Neg(a), a)
	}
	return t
}

func (b *Builder) IntModE(x, y *Term) *Term {
	if x.IsConst() && y.IsConst() && y.Big.Sign() != 0 {
		_, m := new(big.Int).DivMod(x.Big, y.Big, new(big.Int))
		return b.IntC(m)
	}
	if y.IsConst() && y.Big.Sign() > 0 && x.Lo != nil && x.Hi != nil && x.Lo.Sign() >= 0 && x.Hi.Cmp(y.Big) < 0 {
		return x
	}
	t := b.App("mod", Int, x, y)
	if y.Lo != nil && y.Hi != nil {
		a := bigMax(new(big.Int).Abs(y.Lo), new(big.Int).Abs(y.Hi))
		b.setIv(t, big.NewInt(0), new(big.Int).Sub(a, big.NewInt(1)))
	}
	return t
}

func (b *Builder) IntCmp(op string, x, y *Term) *Term { // < <= > >=
	if x.IsConst() && y.IsConst() {
		c := x.Big.Cmp(y.Big)
		switch op {
		case "<":
			return b.BoolC(c < 0)
		case "<=":
			return b.BoolC(c <= 0)
		case ">":
			return b.BoolC(c > 0)
		case ">=":
			return b.BoolC(c >= 0)
		}
	}
	// decide from intervals when possible
	if x.Lo != nil && x.Hi != nil && y.Lo != nil && y.Hi != nil {
		switch op {
		case "<":
			if x.Hi.Cmp(y.Lo) < 0 {
				return b.True
			}
			if x.Lo.Cmp(y.Hi) >= 0 {
				return b.False
			}
		case "<=":
			if x.Hi.Cmp(y.Lo) <= 0 {
				return b.True
			}
			if x.Lo.Cmp(y.Hi) > 0 {
				return b.False
			}
		case ">":
			if x.Lo.Cmp(y.Hi) > 0 {
				return b.True
			}
			if x.Hi.Cmp(y.Lo) <= 0 {
				return b.False
			}
		case ">=":
			if x.Lo.Cmp(y.Hi) >= 0 {
				return b.True
			}
			if x.Hi.Cmp(y.Lo) < 0 {
				return b.False
			}
		}
	}
	return b.App(op, Bool, x, y)
}

func (b *Builder) RealBin(op string, x, y *Term) *Term { // + - * /
	if x.IsConst() && y.IsConst() {
		r := new(big.Rat)
		switch op {
		case "+":
			return b.RealC(r.Add(x.Rat, y.Rat))
		case "-":
			return b.RealC(r.Sub(x.Rat, y.Rat))
		case "*":
			return b.RealC(r.Mul(x.Rat, y.Rat))
		case "/":
			if y.Rat.Sign() != 0 {
				return b.RealC(r.Quo(x.Rat, y.Rat))
			}
		}
	}
	return b.App(op, Real, x, y)
}

func (b *Builder) RealCmp(op string, x, y *Term) *Term {
	if x.IsConst() && y.IsConst() {
		c := x.Rat.Cmp(y.Rat)
		switch op {
		case "<":
			return b.BoolC(c < 0)
		case "<=":
			return b.BoolC(c <= 0)
		case ">":
			return b.BoolC(c > 0)
		case ">=":
			return b.BoolC(c >= 0)
		}
	}
	return b.App(op, Bool, x, y)
}

func (b *Builder) ToReal(x *Term) *Term {
	if x.IsConst() {
		return b.RealC(new(big.Rat).SetInt(x.Big))
	}
	return b.App("to_real", Real, x)
}

// ToIntFloor is SMT-LIB to_int (floor).
func (b *Builder) ToIntFloor(x *Term) *Term {
	if x.IsConst() {
		q := new(big.Int)
		m := new(big.Int)
		q.DivMod(x.Rat.Num(), x.Rat.Denom(), m)
		return b.IntC(q)
	}
	return b.App("to_int", Int, x)
}

// ---------------------------------------------------------------------------------------
// printing

// Printer emits SMT-LIB2 text with one define-fun per shared application node, so that the
// DAG is never expanded into a tree.
type Printer struct {
	defined map[int]bool
	funs    map[string]bool
}

func NewPrinter() *Printer { return &Printer{defined: map[int]bool{}, funs: map[string]bool{}} }

func (p *Printer) Reset()     { p.defined = map[int]bool{}; p.funs = map[string]bool{} }
func (p *Printer) Count() int { return len(p.defined) }

func Ref(t *Term) string {
	switch t.Kind {
	case TConst, TVar:
		return t.Head
	}
	return "t" + strconv.Itoa(t.ID)
}

// Define appends to sb the declarations/definitions needed before t can be referenced, and
// returns the reference text.
func (p *Printer) Define(sb *strings.Builder, t *Term) string {
	if t.Kind == TConst {
		return t.Head
	}
	if p.defined[t.ID] {
		return Ref(t)
	}
	// iterative post-order
	type fr struct {
		t *Term
		i int
	}
	st := []fr{{t, 0}}
	for len(st) > 0 {
		top := &st[len(st)-1]
		if top.t.Kind == TConst || p.defined[top.t.ID] {
			st = st[:len(st)-1]
			continue
		}
		if top.t.Kind == TVar {
			fmt.Fprintf(sb, "(declare-const %s %s)\n", top.t.Head, top.t.Sort.SMT())
			p.defined[top.t.ID] = true
			st = st[:len(st)-1]
			continue
		}
		if top.i < len(top.t.Args) {
			a := top.t.Args[top.i]
			top.i++
			if a.Kind != TConst && !p.defined[a.ID] {
				st = append(st, fr{a, 0})
			}
			continue
		}
		tt := top.t
		if tt.Decl != "" && !p.funs[tt.Head] {
			p.funs[tt.Head] = true
			sb.WriteString(tt.Decl)
			sb.WriteByte('\n')
		}
		fmt.Fprintf(sb, "(define-fun t%d () %s (%s", tt.ID, tt.Sort.SMT(), tt.Head)
		for _, a := range tt.Args {
			sb.WriteByte(' ')
			sb.WriteString(Ref(a))
		}
		sb.WriteString("))\n")
		p.defined[tt.ID] = true
		st = st[:len(st)-1]
	}
	return Ref(t)
}

// CollectVars returns the variables reachable from ts.
func CollectVars(ts ...*Term) []*Term {
	seen := map[int]bool{}
	var out []*Term
	var walk func(t *Term)
	walk = func(t *Term) {
		if seen[t.ID] {
			return
		}
		seen[t.ID] = true
		if t.Kind == TVar {
			out = append(out, t)
		}
		for _, a := range t.Args {
			walk(a)
		}
	}
	for _, t := range ts {
		walk(t)
	}
	return out
}
