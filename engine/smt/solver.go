// Package smt drives a persistent SMT solver process (z3 -in) and a portfolio of fallback
// solvers for queries the primary cannot decide.
package smt

import (
	"bufio"
	"bytes"
	"fmt"
	"io"
	"math"
	"math/big"
	"os"
	"os/exec"
	"path/filepath"
	"strconv"
	"strings"
	"sync/atomic"
	"time"

	"symx/sym"
)

type Result int

const (
	Unsat Result = iota
	Sat
	Unknown
)

func (r Result) String() string { return [...]string{"unsat", "sat", "unknown"}[r] }

type Stats struct {
	Queries     int64
	Sat         int64
	Unsat       int64
	Unknown     int64
	Escalated   int64
	EscDecided  int64
	Errors      int64
	SolverNanos int64
	Resets      int64
	OneShot     int64
	HardKills   int64 // solver processes killed by the wall-clock guard
}

func (s *Stats) Add(o *Stats) {
	s.Queries += o.Queries
	s.Sat += o.Sat
	s.Unsat += o.Unsat
	s.Unknown += o.Unknown
	s.Escalated += o.Escalated
	s.EscDecided += o.EscDecided
	s.Errors += o.Errors
	s.SolverNanos += o.SolverNanos
	s.Resets += o.Resets
	s.OneShot += o.OneShot
	s.HardKills += o.HardKills
}

type Solver struct {
	cmd       *exec.Cmd
	in        io.WriteCloser
	out       *bufio.Reader
	pr        *sym.Printer
	scope     []*sym.Term // assertions of the current path scope (for standalone dumps)
	inScope   bool
	TimeoutMs int
	WorkDir   string // for escalation files
	Stats     Stats
	sinceRst  int
	Portfolio bool
	seq       int
	LastError string
	one       *oneShot // lazily started non-incremental context for FP queries
	scopeFP   bool
}

// oneShot is a second z3 process used with (reset) before every query: a fresh context gets
// z3's tactic-based solver, which decides floating-point queries that the incremental core
// does not finish.
type oneShot struct {
	cmd *exec.Cmd
	in  io.WriteCloser
	out *bufio.Reader
	seq int
}

func (s *Solver) oneShotCheck(extra []*sym.Term, want []*sym.Term) (Result, Model) {
	if s.one == nil {
		o := &oneShot{}
		o.cmd = exec.Command("z3", "-in", "-smt2")
		var err error
		o.in, err = o.cmd.StdinPipe()
		if err != nil {
			return Unknown, nil
		}
		op, err := o.cmd.StdoutPipe()
		if err != nil {
			return Unknown, nil
		}
		o.cmd.Stderr = o.cmd.Stdout
		o.out = bufio.NewReaderSize(op, 1<<16)
		if err := o.cmd.Start(); err != nil {
			return Unknown, nil
		}
		s.one = o
	}
	o := s.one
	o.seq++
	mark := fmt.Sprintf("<<o%d>>", o.seq)
	script := "(reset)\n(set-option :timeout " + strconv.Itoa(s.TimeoutMs*2) + ")\n" + s.Standalone(extra, want) + "(echo \"" + mark + "\")\n"
	if _, err := io.WriteString(o.in, script); err != nil {
		s.one = nil
		return Unknown, nil
	}
	// wall-clock guard (see roundTripGuard)
	oproc := o.cmd.Process
	guard := time.AfterFunc(time.Duration(s.TimeoutMs)*4*time.Millisecond+5*time.Second, func() { oproc.Kill() })
	defer guard.Stop()
	var lines []string
	for {
		ln, err := o.out.ReadString('\n')
		if err != nil {
			go o.cmd.Wait()
			s.one = nil
			s.Stats.HardKills++
			return Unknown, nil
		}
		ln = strings.TrimRight(ln, "\r\n")
		if ln == mark || ln == "\""+mark+"\"" {
			break
		}
		lines = append(lines, ln)
	}
	if len(lines) == 0 {
		return Unknown, nil
	}
	if os.Getenv("SYMX_DEBUG") != "" && lines[0] != "sat" && lines[0] != "unsat" {
		fmt.Fprintf(os.Stderr, "[smt] oneshot answer: %v\n", lines)
	}
	for _, ln := range lines {
		if strings.Contains(ln, "(error") {
			// get-value after unsat prints an error: only fatal if the verdict line is missing
			if lines[0] != "unsat" {
				s.Stats.Errors++
				s.LastError = ln
				return Unknown, nil
			}
		}
	}
	switch lines[0] {
	case "unsat":
		return Unsat, nil
	case "sat":
		if len(want) == 0 {
			return Sat, nil
		}
		m := parseValues(strings.Join(lines[1:], " "), want)
		if m == nil {
			if os.Getenv("SYMX_DEBUG") != "" {
				fmt.Fprintf(os.Stderr, "[smt] cannot parse model: %s\n", strings.Join(lines[1:], " "))
			}
			return Unknown, nil
		}
		return Sat, m
	}
	return Unknown, nil
}

var solverSeq int64

func New(timeoutMs int, workDir string) (*Solver, error) {
	s := &Solver{TimeoutMs: timeoutMs, WorkDir: workDir, pr: sym.NewPrinter(), Portfolio: true}
	if err := s.start(); err != nil {
		return nil, err
	}
	return s, nil
}

func (s *Solver) start() error {
	s.cmd = exec.Command("z3", "-in", "-smt2")
	var err error
	s.in, err = s.cmd.StdinPipe()
	if err != nil {
		return err
	}
	o, err := s.cmd.StdoutPipe()
	if err != nil {
		return err
	}
	s.cmd.Stderr = s.cmd.Stdout
	s.out = bufio.NewReaderSize(o, 1<<16)
	if err := s.cmd.Start(); err != nil {
		return err
	}
	s.pr.Reset()
	s.inScope = false
	s.sinceRst = 0
	fast := s.TimeoutMs / 4
	if fast < 1000 {
		fast = 1000
	}
	s.send("(set-option :global-declarations true)\n(set-option :timeout " + strconv.Itoa(fast) + ")\n")
	return nil
}

// Kill terminates the solver processes; a worker blocked in a query then fails and unwinds.
func (s *Solver) Kill() {
	if s.cmd != nil && s.cmd.Process != nil {
		s.cmd.Process.Kill()
	}
	if s.one != nil && s.one.cmd.Process != nil {
		s.one.cmd.Process.Kill()
	}
}

func ResetEscalationBudget() { atomic.StoreInt64(&escFailures, 0) }

func (s *Solver) Close() {
	if s.cmd != nil {
		s.in.Close()
		s.cmd.Process.Kill()
		s.cmd.Wait()
		s.cmd = nil
	}
	if s.one != nil {
		s.one.in.Close()
		s.one.cmd.Process.Kill()
		s.one.cmd.Wait()
		s.one = nil
	}
}

func (s *Solver) restart() {
	s.Close()
	s.Stats.Resets++
	if err := s.start(); err != nil {
		panic(err)
	}
}

func (s *Solver) send(txt string) {
	if _, err := io.WriteString(s.in, txt); err != nil {
		panic(fmt.Sprintf("solver pipe: %v", err))
	}
}

// roundTrip sends txt followed by a marker echo and returns the lines printed before it.
func (s *Solver) roundTrip(txt string) []string {
	s.seq++
	mark := fmt.Sprintf("<<%d>>", s.seq)
	s.send(txt + "(echo \"" + mark + "\")\n")
	var lines []string
	for {
		ln, err := s.out.ReadString('\n')
		if err != nil {
			panic(fmt.Sprintf("solver died: %v (last: %v)", err, lines))
		}
		ln = strings.TrimRight(ln, "\r\n")
		if ln == mark || ln == "\""+mark+"\"" {
			return lines
		}
		lines = append(lines, ln)
	}
}

// roundTripGuard is roundTrip with a wall-clock guard: z3 does not always honour its own
// :timeout (nonlinear arithmetic inside the incremental core can run for hours). When no
// answer arrives within hard, the process is killed, a new one is started and the current
// path scope is asserted again; the caller treats the query as unknown.
func (s *Solver) roundTripGuard(txt string, hard time.Duration) (lines []string, ok bool) {
	killed := int32(0)
	proc := s.cmd.Process
	timer := time.AfterFunc(hard, func() {
		atomic.StoreInt32(&killed, 1)
		proc.Kill()
	})
	defer func() {
		timer.Stop()
		if r := recover(); r != nil {
			if atomic.LoadInt32(&killed) == 0 {
				panic(r)
			}
			s.Stats.HardKills++
			scope := append([]*sym.Term{}, s.scope...)
			s.restart()
			s.send("(push 1)\n")
			s.inScope = true
			s.scope = s.scope[:0]
			s.scopeFP = false
			for _, t := range scope {
				s.Assert(t)
			}
			lines, ok = nil, false
		}
	}()
	return s.roundTrip(txt), true
}

// BeginPath discards the assertions of the previous path (definitions are kept).
func (s *Solver) BeginPath() {
	s.sinceRst++
	if s.sinceRst > 2000 || s.pr.Count() > 200000 {
		s.restart()
	}
	var sb strings.Builder
	if s.inScope {
		sb.WriteString("(pop 1)\n")
	}
	sb.WriteString("(push 1)\n")
	s.inScope = true
	s.scope = s.scope[:0]
	s.scopeFP = false
	s.send(sb.String())
}

// Assert adds t to the current path scope.
func (s *Solver) Assert(t *sym.Term) {
	var sb strings.Builder
	r := s.pr.Define(&sb, t)
	fmt.Fprintf(&sb, "(assert %s)\n", r)
	s.scope = append(s.scope, t)
	if t.HasFP {
		s.scopeFP = true
	}
	s.send(sb.String())
}

type Model map[int]Value // by term ID of the variable

type Value struct {
	Sort sym.Sort
	Bits uint64   // BV, Bool, FP bits
	Int  *big.Int // Int
	Rat  *big.Rat // Real
	NaN  bool
	Raw  string
}

// Check decides satisfiability of scope ∧ extra. If want is non-empty and the result is sat,
// the values of those variables are returned.
func (s *Solver) Check(extra []*sym.Term, want []*sym.Term) (Result, Model) {
	t0 := time.Now()
	defer func() {
		el := time.Since(t0)
		s.Stats.SolverNanos += int64(el)
		if d := os.Getenv("SYMX_SLOWDIR"); d != "" && el > 1500*time.Millisecond {
			id := atomic.AddInt64(&solverSeq, 1)
			os.MkdirAll(d, 0o755)
			os.WriteFile(filepath.Join(d, fmt.Sprintf("slow-%d-%dms.smt2", id, el.Milliseconds())), []byte(s.Standalone(extra, want)), 0o644)
		}
	}()
	s.Stats.Queries++
	fp := s.scopeFP
	for _, e := range extra {
		if e.HasFP {
			fp = true
		}
	}
	if fp {
		res, model := s.oneShotCheck(extra, want)
		s.Stats.OneShot++
		if res == Unknown && s.Portfolio {
			s.Stats.Escalated++
			r2, m2 := s.escalate(extra, want)
			if r2 != Unknown {
				s.Stats.EscDecided++
				res, model = r2, m2
			}
		}
		switch res {
		case Sat:
			s.Stats.Sat++
		case Unsat:
			s.Stats.Unsat++
		default:
			s.Stats.Unknown++
		}
		return res, model
	}
	var sb strings.Builder
	refs := make([]string, len(extra))
	for i, e := range extra {
		refs[i] = s.pr.Define(&sb, e)
	}
	for _, w := range want {
		s.pr.Define(&sb, w)
	}
	sb.WriteString("(push 1)\n")
	for _, r := range refs {
		fmt.Fprintf(&sb, "(assert %s)\n", r)
	}
	sb.WriteString("(check-sat)\n")
	fast := s.TimeoutMs / 4
	if fast < 1000 {
		fast = 1000
	}
	lines, alive := s.roundTripGuard(sb.String(), time.Duration(fast)*4*time.Millisecond+5*time.Second)
	res := Unknown
	bad := false
	for _, ln := range lines {
		switch {
		case ln == "sat":
			res = Sat
		case ln == "unsat":
			res = Unsat
		case ln == "unknown":
			res = Unknown
		case strings.Contains(ln, "(error"):
			bad = true
			s.LastError = ln
		}
	}
	if bad {
		s.Stats.Errors++
		res = Unknown
	}
	var model Model
	if res == Sat && len(want) > 0 {
		model = s.getValues(want)
		if model == nil {
			res = Unknown
		}
	}
	if alive {
		s.send("(pop 1)\n")
	}
	if res == Unknown {
		// second chance in a fresh context (tactic-based solver), before the portfolio
		s.Stats.OneShot++
		r2, m2 := s.oneShotCheck(extra, want)
		if r2 != Unknown {
			res, model = r2, m2
		}
	}
	if res == Unknown && s.Portfolio {
		s.Stats.Escalated++
		r2, m2 := s.escalate(extra, want)
		if r2 != Unknown {
			s.Stats.EscDecided++
			res, model = r2, m2
		}
	}
	switch res {
	case Sat:
		s.Stats.Sat++
	case Unsat:
		s.Stats.Unsat++
	default:
		s.Stats.Unknown++
	}
	return res, model
}

func (s *Solver) getValues(want []*sym.Term) Model {
	var sb strings.Builder
	sb.WriteString("(get-value (")
	for _, w := range want {
		sb.WriteString(sym.Ref(w))
		sb.WriteByte(' ')
	}
	sb.WriteString("))\n")
	lines := s.roundTrip(sb.String())
	txt := strings.Join(lines, " ")
	if strings.Contains(txt, "(error") {
		s.Stats.Errors++
		s.LastError = txt
		return nil
	}
	return parseValues(txt, want)
}

// --- s-expression parsing of get-value output ---------------------------------------------

type sexp struct {
	atom string
	list []*sexp
}

func parseSexp(s string, i int) (*sexp, int) {
	for i < len(s) && (s[i] == ' ' || s[i] == '\n' || s[i] == '\t') {
		i++
	}
	if i >= len(s) {
		return nil, i
	}
	if s[i] == '(' {
		i++
		n := &sexp{list: []*sexp{}}
		for {
			for i < len(s) && (s[i] == ' ' || s[i] == '\n' || s[i] == '\t') {
				i++
			}
			if i >= len(s) {
				return n, i
			}
			if s[i] == ')' {
				return n, i + 1
			}
			var c *sexp
			c, i = parseSexp(s, i)
			if c == nil {
				return n, i
			}
			n.list = append(n.list, c)
		}
	}
	j := i
	for j < len(s) && s[j] != ' ' && s[j] != '(' && s[j] != ')' && s[j] != '\n' {
		j++
	}
	return &sexp{atom: s[i:j]}, j
}

func (e *sexp) String() string {
	if e.list == nil {
		return e.atom
	}
	var parts []string
	for _, c := range e.list {
		parts = append(parts, c.String())
	}
	return "(" + strings.Join(parts, " ") + ")"
}

func parseBV(a string) (uint64, int, bool) {
	if strings.HasPrefix(a, "#x") {
		v, err := strconv.ParseUint(a[2:], 16, 64)
		return v, 4 * (len(a) - 2), err == nil
	}
	if strings.HasPrefix(a, "#b") {
		v, err := strconv.ParseUint(a[2:], 2, 64)
		return v, len(a) - 2, err == nil
	}
	return 0, 0, false
}

func parseNum(e *sexp) (*big.Rat, bool) {
	if e.list == nil {
		r := new(big.Rat)
		if _, ok := r.SetString(e.atom); ok {
			return r, true
		}
		return nil, false
	}
	if len(e.list) == 2 && e.list[0].atom == "-" {
		r, ok := parseNum(e.list[1])
		if !ok {
			return nil, false
		}
		return r.Neg(r), true
	}
	if len(e.list) == 3 && e.list[0].atom == "/" {
		a, ok1 := parseNum(e.list[1])
		c, ok2 := parseNum(e.list[2])
		if !ok1 || !ok2 || c.Sign() == 0 {
			return nil, false
		}
		return a.Quo(a, c), true
	}
	return nil, false
}

func parseValue(e *sexp, so sym.Sort) (Value, bool) {
	v := Value{Sort: so, Raw: e.String()}
	switch so.K {
	case sym.KBool:
		if e.atom == "true" {
			v.Bits = 1
			return v, true
		}
		return v, e.atom == "false"
	case sym.KBV:
		if e.list != nil && len(e.list) == 3 && e.list[0].atom == "_" && strings.HasPrefix(e.list[1].atom, "bv") {
			n, err := strconv.ParseUint(e.list[1].atom[2:], 10, 64)
			v.Bits = n
			return v, err == nil
		}
		b, _, ok := parseBV(e.atom)
		v.Bits = b
		return v, ok
	case sym.KFP64, sym.KFP32:
		eb, sb := 11, 52
		if so.K == sym.KFP32 {
			eb, sb = 8, 23
		}
		if e.list != nil && len(e.list) == 4 && e.list[0].atom == "fp" {
			sg, _, ok1 := parseBV(e.list[1].atom)
			ex, _, ok2 := parseBV(e.list[2].atom)
			mn, _, ok3 := parseBV(e.list[3].atom)
			v.Bits = sg<<uint(eb+sb) | ex<<uint(sb) | mn
			return v, ok1 && ok2 && ok3
		}
		if e.list != nil && len(e.list) == 4 && e.list[0].atom == "_" {
			expAll := (uint64(1)<<uint(eb) - 1) << uint(sb)
			switch e.list[1].atom {
			case "NaN":
				v.NaN = true
				v.Bits = expAll | 1<<uint(sb-1)
				return v, true
			case "+oo":
				v.Bits = expAll
				return v, true
			case "-oo":
				v.Bits = expAll | 1<<uint(eb+sb)
				return v, true
			case "+zero":
				v.Bits = 0
				return v, true
			case "-zero":
				v.Bits = 1 << uint(eb+sb)
				return v, true
			}
		}
		return v, false
	case sym.KInt:
		r, ok := parseNum(e)
		if !ok || !r.IsInt() {
			return v, false
		}
		v.Int = new(big.Int).Set(r.Num())
		return v, true
	case sym.KReal:
		r, ok := parseNum(e)
		if !ok {
			// algebraic numbers (root-obj ...) are not representable: caller treats as unknown
			return v, false
		}
		v.Rat = r
		return v, true
	}
	return v, false
}

func parseValues(txt string, want []*sym.Term) Model {
	e, _ := parseSexp(txt, 0)
	if e == nil || e.list == nil || len(e.list) != len(want) {
		return nil
	}
	m := Model{}
	for i, pair := range e.list {
		if pair.list == nil || len(pair.list) != 2 {
			return nil
		}
		v, ok := parseValue(pair.list[1], want[i].Sort)
		if !ok {
			return nil
		}
		m[want[i].ID] = v
	}
	return m
}

func (v Value) Float64() float64 { return math.Float64frombits(v.Bits) }

// --- escalation ---------------------------------------------------------------------------

// Standalone renders scope ∧ extra as a self-contained SMT-LIB2 script.
func (s *Solver) Standalone(extra []*sym.Term, want []*sym.Term) string {
	var sb strings.Builder
	pr := sym.NewPrinter()
	var refs []string
	for _, t := range s.scope {
		refs = append(refs, pr.Define(&sb, t))
	}
	for _, t := range extra {
		refs = append(refs, pr.Define(&sb, t))
	}
	for _, w := range want {
		pr.Define(&sb, w)
	}
	for _, r := range refs {
		fmt.Fprintf(&sb, "(assert %s)\n", r)
	}
	sb.WriteString("(check-sat)\n")
	if len(want) > 0 {
		sb.WriteString("(get-value (")
		for _, w := range want {
			sb.WriteString(sym.Ref(w))
			sb.WriteByte(' ')
		}
		sb.WriteString("))\n")
	}
	return sb.String()
}

var EscalateTimeoutS = 40

// escFailures counts escalations that stayed undecided (all workers); beyond the limit the
// portfolio is skipped for the rest of the run (the affected paths are reported inconclusive).
var escFailures int64
var EscFailureLimit int64 = 24

func (s *Solver) escalate(extra []*sym.Term, want []*sym.Term) (res0 Result, m0 Model) {
	if atomic.LoadInt64(&escFailures) >= EscFailureLimit {
		return Unknown, nil
	}
	defer func() {
		if res0 == Unknown {
			atomic.AddInt64(&escFailures, 1)
		}
	}()
	script := s.Standalone(extra, want)
	id := atomic.AddInt64(&solverSeq, 1)
	os.MkdirAll(s.WorkDir, 0o755)
	f := filepath.Join(s.WorkDir, fmt.Sprintf("esc-%d-%d.smt2", os.Getpid(), id))
	if err := os.WriteFile(f, []byte("(set-logic ALL)\n(set-option :produce-models true)\n"+script), 0o644); err != nil {
		return Unknown, nil
	}
	if os.Getenv("SYMX_KEEP_ESC") == "" {
		defer os.Remove(f)
	}
	type ans struct {
		r Result
		m Model
	}
	ch := make(chan ans, 2)
	cmds := [][]string{
		{"cvc5", "--tlimit=" + strconv.Itoa(EscalateTimeoutS*1000), "--produce-models", f},
		{"z3-new", "-T:" + strconv.Itoa(EscalateTimeoutS), f},
	}
	var procs []*exec.Cmd
	for _, c := range cmds {
		cmd := exec.Command(c[0], c[1:]...)
		procs = append(procs, cmd)
		go func(cmd *exec.Cmd) {
			out, _ := cmd.Output()
			txt := string(out)
			if strings.Contains(txt, "(error") {
				ch <- ans{Unknown, nil}
				return
			}
			lines := strings.SplitN(strings.TrimSpace(txt), "\n", 2)
			switch strings.TrimSpace(lines[0]) {
			case "unsat":
				ch <- ans{Unsat, nil}
			case "sat":
				var m Model
				if len(want) > 0 {
					if len(lines) < 2 {
						ch <- ans{Unknown, nil}
						return
					}
					m = parseValues(lines[1], want)
					if m == nil {
						ch <- ans{Unknown, nil}
						return
					}
				}
				ch <- ans{Sat, m}
			default:
				ch <- ans{Unknown, nil}
			}
		}(cmd)
	}
	res := ans{Unknown, nil}
	for i := 0; i < len(cmds); i++ {
		a := <-ch
		if a.r != Unknown {
			res = a
			break
		}
	}
	for _, p := range procs {
		if p.Process != nil {
			p.Process.Kill()
		}
	}
	return res.r, res.m
}

// CrossCheck runs the standalone script through cvc5 and compares with expected.
func (s *Solver) CrossCheck(extra []*sym.Term, expected Result) (agree bool, got string) {
	script := s.Standalone(extra, nil)
	cmd := exec.Command("cvc5", "--tlimit=20000", "--lang=smt2")
	cmd.Stdin = bytes.NewReader([]byte("(set-logic ALL)\n" + script))
	out, _ := cmd.Output()
	g := strings.TrimSpace(strings.SplitN(string(out), "\n", 2)[0])
	if g != "sat" && g != "unsat" {
		return true, g // undecided: no disagreement
	}
	return g == expected.String(), g
}
